"""C28 Data-object serialisations round-trip losslessly.

A zoo of data classes (harness classes built on every Dom base class, mutable
and frozen, with nested data-object fields typed by the class, plus the tree's
own Bag / IceBag / Can / multidoing memo Doms) x generated field values from the
domain common to JSON, CBOR and MessagePack.  For each codec X:

    cls._fromX(obj._asX()) == obj   and   type(result) is cls

and every nested data object is again an instance of its class (not a dict).
_fromdict(_asdict()) is checked the same way.

Besides fields annotated with the nested class itself the zoo holds nested data
objects the other ways a caller writes them: in classes declared under
`from __future__ import annotations` (vlib/props/c28_future_doms.py), in
`Dom | None` / `Optional[Dom]` / `list[Dom]` / `dict[str, Dom]` fields, inside the
generic `Any` / `list` / `dict` fields (the tree's own Bag, IceBag, Can), data
classes with a `field(init=False)` and nested data classes with a matched
`_dictify` / `_datify` pair.  A failure of one of these shapes gets that shape's own
signature only when the result is exactly the sent object with the nested objects of
that shape flattened to their plain dicts and that flattened object itself
round-trips unchanged; any other failure keeps the codec's raw signature.
"""
import dataclasses
import functools
import itertools
import sys
import types
import typing
from dataclasses import dataclass, field
from typing import Any, Optional

from hypothesis import strategies as st

from hio.help import doming
from hio.help.doming import (IceRawDom, IceRegDom, IceTymeDom, RawDom, RegDom, TymeDom, namify, registerify)
from hio.base.hier import bagging
from vlib.core import Result, assert_in_tree
from vlib.props import c28_future_doms as fut

assert_in_tree(doming, bagging)

try:
    from hio.base import multidoing
    assert_in_tree(multidoing)
except Exception:      # noqa: BLE001 - optional part of the zoo
    multidoing = None

try:
    from hio.base.hier import canning
    assert_in_tree(canning)
except Exception:      # noqa: BLE001 - optional part of the zoo
    canning = None

PID = "C28"
RULE = ("cases: (class from a zoo of 38 data classes, two of them field-less markers nested in a holder (a nested marker serialises to the empty dict), three of them subclasses that add nested data-object fields to a concrete parent which is deserialised first over RawDom/RegDom/TymeDom/IceRawDom/IceRegDom/IceTymeDom/CanDom and the "
        "tree's Bag, IceBag, Can, AckDom/AddrDom/MemoDom/BokDom, field values); values (also in fields whose declared default is not None, and None in typed fields) drawn from None, bools, ints in "
        "[-2**63, 2**64-1], finite floats, surrogate-free unicode strings, lists and string-keyed dicts of those, nested "
        "data objects in fields typed by their class (real annotations; string annotations of four classes declared under from __future__ import annotations, one of them a CanDom subclass, one of them subclassed in a module where the "
        "annotated names mean other classes), in Dom|None, Optional[Dom], list[Dom], dict[str, Dom] fields and anywhere inside generic Any/list/dict fields, data classes with field(init=False) "
        "(assigned later or derived in __post_init__), top level and nested, a data class with a matched _dictify/_datify pair, top level and nested; non-trivial = the object holds a nested data object or a nested "
        "container (list/dict inside list/dict); distinct = canonical hash of (class, values)")
ASSUMPTIONS = [
    "a nested data object is an instance of exactly the class its field names (no subclass instance in a base-typed field); in generic Any/list/dict fields and in Dom|None, "
    "list[Dom], dict[str, Dom] fields it is a plain instance of a zoo class without hooks and without init=False fields",
    "values outside the common domain of the three codecs (tuples, sets, bytes, NaN/inf, non-string keys, lone surrogates, ints beyond 64 bits) are not generated",
    "equality is the data classes' own == (field-wise), plus class identity of the result and of nested data objects",
    "a _dictify/_datify pair is exactly invertible (it renames the keys); data classes are declared at module level (a string annotation naming a function-local class cannot be resolved by anyone)",
]


# ---------------------------------------------------------------- the zoo

@dataclass
class ZInner(RawDom):
    a: int = 0
    s: str = ""
    f: float = 0.0
    v: Any = None


@dataclass(frozen=True)
class ZIceInner(IceRawDom):
    a: int = 0
    s: str = ""
    v: Any = None


@registerify
@dataclass
class ZMid(RegDom):
    name: str = "mid"
    inner: ZInner = field(default_factory=ZInner)
    vals: list = field(default_factory=list)
    meta: dict = field(default_factory=dict)
    x: Any = None

    def __hash__(self):
        return hash((self.__class__.__name__,))


@namify
@registerify
@dataclass
class ZOuter(TymeDom):
    mid: ZMid = field(default_factory=ZMid)
    ice: ZIceInner = field(default_factory=ZIceInner)
    n: Any = None
    items: list = field(default_factory=list)
    d: dict = field(default_factory=dict)

    def __hash__(self):
        return hash((self.__class__.__name__,))


@registerify
@dataclass(frozen=True)
class ZIceReg(IceRegDom):
    inner: ZIceInner = field(default_factory=ZIceInner)
    v: Any = None
    w: Any = None


@namify
@registerify
@dataclass(frozen=True)
class ZIceTyme(IceTymeDom):
    inner: ZIceInner = field(default_factory=ZIceInner)
    reg: ZIceReg = field(default_factory=ZIceReg)
    value: Any = None


@namify
@registerify
@dataclass
class ZFlat(TymeDom):
    value: Any = None
    other: Any = None
    flag: bool = False
    count: int = 0
    ratio: float = 0.0
    text: str = ""

    def __hash__(self):
        return hash((self.__class__.__name__,))


@namify
@registerify
@dataclass
class ZDefaults(TymeDom):
    """generic fields whose declared defaults are not None"""
    retries: Any = 3
    label: Any = "x"
    opts: Any = field(default_factory=lambda: [1, 2])
    conf: Any = field(default_factory=lambda: {"k": "v"})
    on: Any = True
    inner: ZInner = field(default_factory=lambda: ZInner(a=7, s="seven", f=7.5, v=[7]))

    def __hash__(self):
        return hash((self.__class__.__name__,))


@registerify
@dataclass(frozen=True)
class ZIceDefaults(IceRegDom):
    retries: Any = 3
    label: Any = "x"
    ratio: Any = 0.5
    on: Any = False


# subclasses of concrete data classes that ADD fields, among them nested data objects (a per-class cache or registry
# lookup that is inherited from the parent would miss exactly these)
@namify
@registerify
@dataclass
class ZSubFlat(ZFlat):
    spot: ZInner = field(default_factory=ZInner)
    extra: Any = None

    def __hash__(self):
        return hash((self.__class__.__name__,))


@dataclass
class ZSubInner(ZInner):
    deeper: ZInner = field(default_factory=ZInner)
    note: str = ""


@registerify
@dataclass(frozen=True)
class ZSubIceReg(ZIceReg):
    more: ZIceInner = field(default_factory=ZIceInner)
    z: Any = None


# data classes WITHOUT fields (markers) and a holder that nests them: a nested marker serialises to {} - an empty, falsy value
@dataclass
class ZMark(RawDom):
    pass


@dataclass(frozen=True)
class ZIceMark(IceRawDom):
    pass


@registerify
@dataclass
class ZHolder(RegDom):
    mark: ZMark = field(default_factory=ZMark)
    ice: ZIceMark = field(default_factory=ZIceMark)
    inner: ZInner = field(default_factory=ZInner)
    n: int = 0

    def __hash__(self):
        return hash((self.__class__.__name__,))


# ---- shapes of nested data objects other than "field annotated with the class itself" (review hunts/C28)

# unrelated namesakes of c28_future_doms.ZFInner / ZFIceInner: ZFSub below inherits fields whose string annotations
# 'ZFInner' / 'ZFIceInner' were written in c28_future_doms and mean the classes of THAT module
@dataclass
class ZFInner(RawDom):
    q: int = 0


@dataclass(frozen=True)
class ZFIceInner(IceRawDom):
    q: int = 0


@registerify
@dataclass
class ZFSub(fut.ZFReg):
    more: ZInner = field(default_factory=ZInner)
    tail: Any = None

    def __hash__(self):
        return hash((self.__class__.__name__,))


@registerify
@dataclass
class ZOpt(RegDom):
    a: ZInner | None = None
    b: Optional[ZIceInner] = None
    n: int = 0

    def __hash__(self):
        return hash((self.__class__.__name__,))


@registerify
@dataclass
class ZPoly(RegDom):
    pts: list[ZInner] = field(default_factory=list)
    named: dict[str, ZIceInner] = field(default_factory=dict)
    n: int = 0

    def __hash__(self):
        return hash((self.__class__.__name__,))


# data classes with a field that is not a parameter of __init__
@registerify
@dataclass
class ZNoInit(RegDom):
    x: int = 1
    y: int = field(init=False, default=5)           # assigned by the caller after construction
    w: Any = field(init=False, default=None)

    def __hash__(self):
        return hash((self.__class__.__name__,))


@registerify
@dataclass(frozen=True)
class ZIceNoInit(IceRegDom):
    s: str = ""
    size: int = field(init=False, default=0)        # derived in __post_init__

    def __post_init__(self):
        object.__setattr__(self, "size", len(self.s or ""))


@registerify
@dataclass
class ZNoInitHolder(RegDom):
    ni: ZNoInit = field(default_factory=ZNoInit)
    ice: ZIceNoInit = field(default_factory=ZIceNoInit)
    n: int = 0

    def __hash__(self):
        return hash((self.__class__.__name__,))


# the same fields, all of them parameters of __init__: the control of a failing ZNoInit / ZIceNoInit case
@dataclass
class ZNoInitTwin(RawDom):
    x: int = 1
    y: int = 5
    w: Any = None


@dataclass(frozen=True)
class ZIceNoInitTwin(IceRawDom):
    s: str = ""
    size: int = 0


# a data class with a matched pair of the conversion hooks of dictify / datify (they rename the keys)
@registerify
@dataclass
class ZHooked(RegDom):
    radius: float = 0.0
    label: str = ""

    def _dictify(self):
        return dict(r=self.radius, l=self.label)

    @staticmethod
    def _datify(d):
        return ZHooked(radius=d["r"], label=d["l"])

    def __hash__(self):
        return hash((self.__class__.__name__,))


@registerify
@dataclass
class ZHookHolder(RegDom):
    c: ZHooked = field(default_factory=ZHooked)
    n: int = 0

    def __hash__(self):
        return hash((self.__class__.__name__,))


PARENT = {"ZSubFlat": "ZFlat", "ZSubInner": "ZInner", "ZSubIceReg": "ZIceReg", "ZFSub": "ZFReg"}
TWIN = {"ZNoInit": ZNoInitTwin, "ZIceNoInit": ZIceNoInitTwin}

ZOO = {c.__name__: c for c in (ZInner, ZIceInner, ZMid, ZOuter, ZIceReg, ZIceTyme, ZFlat, ZDefaults, ZIceDefaults,
                               ZSubFlat, ZSubInner, ZSubIceReg, ZMark, ZIceMark, ZHolder, bagging.Bag, bagging.IceBag)}
if multidoing is not None:
    # CrewDom is left out: its default boss field is a namedtuple, outside the common domain of the codecs
    for _n in ("AddrDom", "AckDom", "MemoDom", "BokDom", "EndDom", "HandDom"):
        ZOO[_n] = getattr(multidoing, _n)
CLASSIC = sorted(ZOO)       # the classes of the 'zoo' search: every nested data object sits in a field annotated with its class
for _c in (fut.ZFInner, fut.ZFIceInner, fut.ZFReg, fut.ZFIceReg, fut.ZFTyme, fut.ZFCan, ZFSub, ZOpt, ZPoly,
           ZNoInit, ZIceNoInit, ZNoInitHolder, ZHooked, ZHookHolder):
    ZOO[_c.__name__] = _c
if canning is not None:
    ZOO["Can"] = canning.Can

MARK = "$c28dom$"       # {MARK: spec} inside a generic value stands for a nested data object (keys of generated dicts are at most 5 characters)

# why a nested data object may not come back as an instance of its class; each is one root cause with its own signature
SHAPES = {
    "string": "C28/nested-dom-lost(field annotated with a string, from __future__ import annotations)",
    "optional": "C28/nested-dom-lost(field annotated Dom | None or Optional[Dom])",
    "container": "C28/nested-dom-lost(field annotated list[Dom] or dict[str, Dom])",
    "untyped": "C28/nested-dom-lost(generic Any / list / dict field)",
    "hooked": "C28/nested-dom-lost(nested class has a _dictify/_datify pair)",
    "noinit": "C28/field-init-false(class has a field(init=False))",
}
SHAPE_ORDER = ["string", "optional", "container", "untyped", "hooked", "noinit"]
CLASSCATS = {"ZHooked": "hooked", "ZNoInit": "noinit", "ZIceNoInit": "noinit"}     # when nested in a field annotated with them


def _resolved(cls, f):
    """(type hint of field f of cls, was it a string): a string annotation is evaluated in the module of the class that wrote it"""
    t = f.type
    if not isinstance(t, str):
        return t, False
    for k in cls.__mro__:
        if f.name in k.__dict__.get("__annotations__", {}):
            return eval(t, dict(vars(sys.modules[k.__module__]))), True      # noqa: S307 - the harness's and the tree's own annotations
    raise AssertionError("no annotation for %s.%s" % (cls.__name__, f.name))


def _domcls(t):
    return isinstance(t, type) and dataclasses.is_dataclass(t)


STRHINT = set()     # (zoo name, field) of nested data-object fields whose annotation is a string
NOINIT = {}         # zoo name -> names of its init=False fields


def field_plan(cls):
    """[(name, kind)] with kind 'dom:<ZooName>' | 'optdom:<ZooName>' | 'listdom:<ZooName>' | 'dictdom:<ZooName>' |
    'int' | 'str' | 'float' | 'bool' | 'list' | 'dict' | 'optfloat' | 'any'"""
    out = []
    frozen = cls.__dataclass_params__.frozen
    for f in dataclasses.fields(cls):
        t, was_str = _resolved(cls, f)
        if not f.init:
            NOINIT.setdefault(cls.__name__, set()).add(f.name)
            if frozen:
                continue        # derived by the class itself
        origin = typing.get_origin(t)
        args = typing.get_args(t)
        if _domcls(t):
            out.append((f.name, "dom:" + t.__name__))
            if was_str:
                STRHINT.add((cls.__name__, f.name))
        elif origin in (typing.Union, types.UnionType) and len(args) == 2 and type(None) in args and any(_domcls(a) for a in args):
            out.append((f.name, "optdom:" + [a for a in args if _domcls(a)][0].__name__))
        elif origin is list and len(args) == 1 and _domcls(args[0]):
            out.append((f.name, "listdom:" + args[0].__name__))
        elif origin is dict and len(args) == 2 and args[0] is str and _domcls(args[1]):
            out.append((f.name, "dictdom:" + args[1].__name__))
        elif t is int:
            out.append((f.name, "int"))
        elif t is str:
            out.append((f.name, "str"))
        elif t is float:
            out.append((f.name, "float"))
        elif t is bool:
            out.append((f.name, "bool"))
        elif t is list:
            out.append((f.name, "list"))
        elif t is dict:
            out.append((f.name, "dict"))
        elif t is Any:
            out.append((f.name, "any"))
        else:
            s = str(t)
            if "float" in s:
                out.append((f.name, "optfloat"))
            elif "bool" in s:
                out.append((f.name, "optbool"))
            else:
                out.append((f.name, "any"))
    return out


PLANS = {n: field_plan(c) for n, c in ZOO.items()}
for _n, _p in PLANS.items():
    for _f, _k in _p:
        if "dom:" in _k:
            _t = _k.split(":", 1)[1]
            if _t not in ZOO:
                raise AssertionError("zoo is not closed: %s.%s -> %s" % (_n, _f, _k))
if ZOO["ZFSub"].__mro__[1] is not fut.ZFReg or ("ZFSub", "inner") not in STRHINT or ("ZFCan", "inner") not in STRHINT:
    raise AssertionError("the string-annotated part of the zoo is not what it is meant to be")
GENERIC = ("any", "list", "dict")


# ---------------------------------------------------------------- building objects from case data

def plain(v):
    """the plain-dict form of a value: every data object replaced by the dict of its fields (the harness's own walk)"""
    if dataclasses.is_dataclass(v) and not isinstance(v, type):
        return {f.name: plain(getattr(v, f.name)) for f in dataclasses.fields(v)}
    if isinstance(v, list):
        return [plain(x) for x in v]
    if isinstance(v, dict):
        return {k: plain(x) for k, x in v.items()}
    return v


def build(spec, lose=frozenset(), seen=None, lost=None):
    """spec = {"cls": name, "vals": {field: value-or-nested-spec}}.  A nested data object whose shape categories meet
    `lose` is built as its plain dict (`lost` collects the categories that did it).  `seen` collects the category sets
    of the nested data objects with a shape."""
    name = spec["cls"]
    cls = ZOO[name]
    kw = {}
    later = {}

    def node(sub, cats):
        kc = CLASSCATS.get(sub["cls"])
        if kc:
            cats = cats | {kc}
        if cats and seen is not None:
            seen.add(frozenset(cats))
        if cats & lose:
            if lost is not None:
                lost.update(cats & lose)
            return plain(build(sub))
        return build(sub, lose, seen, lost)

    def value(v):
        if isinstance(v, dict):
            if len(v) == 1 and MARK in v:
                return node(v[MARK], {"untyped"})
            return {k: value(x) for k, x in v.items()}
        if isinstance(v, list):
            return [value(x) for x in v]
        return v

    for fname, kind in PLANS[name]:
        if fname not in spec["vals"]:
            continue
        v = spec["vals"][fname]
        if kind.startswith("dom:"):
            v = node(v, {"string"} if (name, fname) in STRHINT else set())
        elif kind.startswith("optdom:"):
            v = None if v is None else node(v, {"optional"})
        elif kind.startswith("listdom:"):
            v = [node(x, {"container"}) for x in v]
        elif kind.startswith("dictdom:"):
            v = {k: node(x, {"container"}) for k, x in v.items()}
        elif kind in GENERIC:
            v = value(v)
        if fname in NOINIT.get(name, ()):
            later[fname] = v
        else:
            kw[fname] = v
    obj = cls(**kw)
    for fname, v in later.items():
        setattr(obj, fname, v)
    return obj


def _spec_of(obj):
    """the spec of a data object that holds nested data objects only in fields annotated with their class (a declared default)"""
    name = type(obj).__name__
    if ZOO.get(name) is not type(obj):
        raise AssertionError("default of a class outside the zoo: %r" % (obj,))
    vals = {}
    for fname, kind in PLANS[name]:
        v = getattr(obj, fname)
        if kind.startswith("dom:"):
            v = _spec_of(v)
        elif "dom:" in kind and v:
            raise AssertionError("a declared default holds data objects in an Optional/list/dict field: %r" % (obj,))
        vals[fname] = v
    return {"cls": name, "vals": vals}


def explicit(spec, obj):
    """spec with the nested data objects that `obj` = build(spec) got from declared defaults written out"""
    vals = {}
    for fname, kind in PLANS[spec["cls"]]:
        if fname in spec["vals"]:
            v = spec["vals"][fname]
            if kind.startswith("dom:"):
                v = explicit(v, getattr(obj, fname))
            elif kind.startswith("optdom:") and v is not None:
                v = explicit(v, getattr(obj, fname))
            elif kind.startswith("listdom:"):
                v = [explicit(x, o) for x, o in zip(v, getattr(obj, fname))]
            elif kind.startswith("dictdom:"):
                v = {k: explicit(x, getattr(obj, fname)[k]) for k, x in v.items()}
            elif kind in GENERIC:
                v = _explicit_value(v, getattr(obj, fname))
            vals[fname] = v
        elif kind.startswith("dom:"):
            vals[fname] = _spec_of(getattr(obj, fname))
    return {"cls": spec["cls"], "vals": vals}


def _explicit_value(v, o):
    if isinstance(v, dict):
        if len(v) == 1 and MARK in v:
            return {MARK: explicit(v[MARK], o)}
        return {k: _explicit_value(x, o[k]) for k, x in v.items()}
    if isinstance(v, list):
        return [_explicit_value(x, y) for x, y in zip(v, o)]
    return v


def same(a, b, path="obj"):
    """None when a equals b and every data object in a has exactly the class of its counterpart in b,
    else ('class' | 'value', where)"""
    if dataclasses.is_dataclass(b) and not isinstance(b, type):
        if type(a) is not type(b):
            return "class", "%s is %s, expected %s" % (path, type(a).__name__, type(b).__name__)
        for f in dataclasses.fields(b):
            bad = same(getattr(a, f.name), getattr(b, f.name), path + "." + f.name)
            if bad:
                return bad
        return None
    if dataclasses.is_dataclass(a) and not isinstance(a, type):
        return "class", "%s is %s, expected %s" % (path, type(a).__name__, type(b).__name__)
    if isinstance(b, list) and isinstance(a, list) and len(a) == len(b):
        for i, (x, y) in enumerate(zip(a, b)):
            bad = same(x, y, "%s[%d]" % (path, i))
            if bad:
                return bad
        return None
    if isinstance(b, dict) and isinstance(a, dict) and set(a) == set(b):
        for k in b:
            bad = same(a[k], b[k], "%s[%r]" % (path, k))
            if bad:
                return bad
        return None
    if a == b:
        return None
    return "value", "%s is %r, expected %r" % (path, a, b)


def _has_nested_container(v, depth=0):
    if isinstance(v, (list, dict)):
        if isinstance(v, dict) and len(v) == 1 and MARK in v:
            return False
        if depth >= 1:
            return True
        it = v.values() if isinstance(v, dict) else v
        return any(_has_nested_container(x, depth + 1) for x in it)
    return False


def _marked(v):
    """the nested specs standing inside a generic value"""
    if isinstance(v, dict):
        if len(v) == 1 and MARK in v:
            return [v[MARK]]
        return [m for x in v.values() for m in _marked(x)]
    if isinstance(v, list):
        return [m for x in v for m in _marked(x)]
    return []


def _spec_flags(spec):
    dom = False
    cont = False
    for fname, kind in PLANS[spec["cls"]]:
        if fname not in spec["vals"]:
            continue
        v = spec["vals"][fname]
        if kind.startswith("dom:"):
            subs = [v]
        elif kind.startswith("optdom:"):
            subs = [] if v is None else [v]
        elif kind.startswith("listdom:"):
            subs = list(v)
        elif kind.startswith("dictdom:"):
            subs = list(v.values())
        else:
            subs = _marked(v)
            if _has_nested_container(v):
                cont = True
        for sub in subs:
            dom = True
            _d2, c2 = _spec_flags(sub)
            cont = cont or c2
    return dom, cont


CODECS = [("json", "_asjson", "_fromjson"), ("cbor", "_ascbor", "_fromcbor"), ("mgpk", "_asmgpk", "_frommgpk"),
          ("dict", "_asdict", "_fromdict")]


def _trip(obj, cls, case):
    """[(codec, outcome)]: outcome ('ser', ex) | ('utf8', ex) | ('de', ex, raw) | ('back', result)"""
    out = []
    for name, ser, de in CODECS:
        try:
            raw = getattr(obj, ser)()
        except Exception as ex:      # noqa: BLE001
            out.append((name, ("ser", ex)))
            continue
        if name == "json" and case.get("json_as_str"):
            try:
                raw = raw.decode()
            except UnicodeDecodeError as ex:
                out.append((name, ("utf8", ex)))
                continue
        try:
            back = getattr(cls, de)(raw)
        except Exception as ex:      # noqa: BLE001
            out.append((name, ("de", ex, raw)))
            continue
        out.append((name, ("back", back)))
    return out


def _judge(trips, cls, want):
    """[(signature, detail)] of the outcomes against the expected object `want`"""
    fails = []
    for name, oc in trips:
        if oc[0] == "ser":
            fails.append(("C28/%s-serialise-raised:%s" % (name, type(oc[1]).__name__), repr(oc[1])))
        elif oc[0] == "utf8":
            fails.append(("C28/json-not-utf8", repr(oc[1])))
        elif oc[0] == "de":
            fails.append(("C28/%s-deserialise-raised:%s" % (name, type(oc[1]).__name__), "%r raw=%s" % (oc[1], repr(oc[2])[:200])))
        elif type(oc[1]) is not cls:
            fails.append(("C28/%s-class" % name, "got %s expected %s" % (type(oc[1]).__name__, cls.__name__)))
        else:
            bad = same(oc[1], want)
            if bad and bad[0] == "class":
                fails.append(("C28/%s-nested-class" % name, bad[1]))
            elif bad:
                fails.append(("C28/%s-not-equal" % name, "%s; sent %r got %r" % (bad[1], want, oc[1])))
    return fails


def _known_shape(case, spec, cls, trips, present):
    """The shape categories a failing case can be charged to, or None.  A set S of the categories present qualifies when
    every codec gave exactly the sent object with the nested data objects of S flattened to their plain dicts (for a top
    level class with an init=False field: every deserialiser raised ValueError) and that flattened object (there: the
    same values in a twin class without init=False) round-trips unchanged."""
    root_noinit = spec["cls"] in TWIN
    cats = [c for c in SHAPE_ORDER if c in present]
    subsets = [tuple(cats)] + [s for k in range(1, len(cats)) for s in itertools.combinations(cats, k)]
    for sub in subsets:
        lose = frozenset(sub)
        if root_noinit and "noinit" in lose:
            if lose != {"noinit"} or not all(oc[0] == "de" and type(oc[1]) is ValueError for _n, oc in trips):
                continue
            full = build(spec)
            twin = TWIN[spec["cls"]]
            ctl = twin(**{f.name: getattr(full, f.name) for f in dataclasses.fields(full)})
            if _judge(_trip(ctl, twin, case), twin, ctl):
                continue
            return sub
        lost = set()
        want = build(spec, lose, None, lost)
        if _judge(trips, cls, want):
            continue
        if _judge(_trip(want, cls, case), cls, want):
            continue
        return [c for c in SHAPE_ORDER if c in lost]      # not the shapes that sit inside a flattened object
    return None


def run_case(case):
    r = Result()
    spec = case["obj"]
    cls = ZOO[spec["cls"]]
    seen = set()
    obj = build(spec, frozenset(), seen)
    present = set().union(*seen) if seen else set()
    if spec["cls"] in TWIN:
        present.add("noinit")
    if spec["cls"] in PARENT and case.get("parent_first", True):
        pcls = ZOO[PARENT[spec["cls"]]]
        pcls._fromjson(pcls()._asjson())
        r.labels.append("subclass-after-parent")
    trips = _trip(obj, cls, case)
    fails = _judge(trips, cls, obj)
    full = None
    if fails:
        # nested data objects that came from declared defaults have a shape too
        full = explicit(spec, obj)
        seen2 = set()
        if same(build(full, frozenset(), seen2), obj) is None:
            present = present.union(*seen2)
        else:
            full = None
    if full is not None and present:
        sub = _known_shape(case, full, cls, trips, present)
        if sub is not None:
            first = fails[0]
            fails = [(SHAPES[c], "the only difference in every codec: nested data objects of this shape came back as their plain "
                      "dicts%s; first raw failure %s: %s" % (" / deserialising raised ValueError" if c == "noinit" else "",
                                                           first[0], first[1])) for c in sub]
            r.labels.append("known-shape-failure")
    for sig, detail in fails:
        r.fail(sig, detail)
    dom, cont = _spec_flags(spec)
    r.nontrivial = dom or cont or bool(present)
    r.labels.append("cls:" + spec["cls"])
    if dom:
        r.labels.append("nested-dom")
    if cont:
        r.labels.append("nested-container")
    for c in sorted(present):
        r.labels.append("shape:" + c)
    return r


# ---------------------------------------------------------------- strategies

INT = st.one_of(st.integers(-2 ** 63, 2 ** 64 - 1), st.integers(-300, 300),
                st.sampled_from([0, -1, 255, 256, 65535, 65536, 2 ** 31, 2 ** 32 - 1, 2 ** 32, 2 ** 53 + 1, 2 ** 63 - 1,
                                 2 ** 63, 2 ** 64 - 1, -2 ** 31 - 1, -2 ** 63, -129, -32769, 23, 24]))
FLOAT = st.one_of(st.floats(allow_nan=False, allow_infinity=False),
                  st.sampled_from([0.0, -0.0, 1.0, 0.1, 1e300, 5e-324, 1.5, -2.5, 1e16, 3.0, 65504.0, 1e-7, 2.0 ** 24 + 1]))
TEXT = st.one_of(st.text(st.characters(exclude_categories=("Cs",)), max_size=12),
                 st.sampled_from(["", "\x00", "é", "\U0001f600", "\"", "\\", "\n", " ", "a" * 40, "﻿", "\x7f", "null"]))
SCALAR = st.one_of(st.none(), st.booleans(), INT, FLOAT, TEXT)
KEY = st.one_of(st.text(st.characters(exclude_categories=("Cs",)), max_size=5), st.sampled_from(["", "a", "s", "v", "inner", "0"]))
VALUE = st.recursive(SCALAR, lambda ch: st.one_of(st.lists(ch, max_size=4), st.dictionaries(KEY, ch, max_size=4)),
                     max_leaves=10)
LIST = st.lists(VALUE, max_size=4)
DICT = st.dictionaries(KEY, VALUE, max_size=4)

# classes whose instances are put inside generic values (no hooks, no init=False fields: see ASSUMPTIONS)
MARKABLE = ["ZInner", "Bag", "IceBag", "ZIceInner", "ZMark", "ZFInner", "ZFlat", "ZMid", "ZIceReg", "ZFReg"]


@functools.lru_cache(maxsize=None)
def _generic(markers):
    """(VALUE, LIST, DICT) whose leaves may also be nested data objects; at the second level (a data object inside a data
    object inside a generic value) only the tree's own Bag / IceBag"""
    if markers <= 0:
        return VALUE, LIST, DICT
    names = MARKABLE if markers >= 2 else ["Bag", "IceBag"]
    marked = st.sampled_from(names).flatmap(lambda n: st.fixed_dictionaries({MARK: spec_strategy(n, markers - 1)}))
    small = st.one_of(st.none(), st.booleans(), st.integers(-300, 300), st.sampled_from([0.5, -0.0, 1e300]), st.sampled_from(["", "a", "\U0001f600"]))
    leaf = st.one_of(small, marked, marked)
    value = st.one_of(leaf, marked, st.lists(leaf, max_size=3), st.dictionaries(KEY, leaf, max_size=3),
                      st.lists(st.one_of(st.lists(leaf, max_size=2), st.dictionaries(KEY, leaf, max_size=2)), max_size=2))
    return value, st.lists(value, max_size=3), st.dictionaries(KEY, value, max_size=3)


@functools.lru_cache(maxsize=None)      # building a strategy is far more expensive than running a case
def spec_strategy(name, markers=0):
    parts = {}
    value, lst, dct = _generic(markers)
    for fname, kind in PLANS[name]:
        if kind.startswith("dom:"):
            s = spec_strategy(kind[4:], markers)
        elif kind.startswith("optdom:"):
            sub = spec_strategy(kind[7:], markers)
            s = st.one_of(st.none(), sub, sub)
        elif kind.startswith("listdom:"):
            s = st.lists(spec_strategy(kind[8:], markers), max_size=3)
        elif kind.startswith("dictdom:"):
            s = st.dictionaries(KEY, spec_strategy(kind[8:], markers), max_size=3)
        elif kind == "int":
            s = INT
        elif kind == "str":
            s = TEXT
        elif kind == "float":
            s = FLOAT
        elif kind == "bool":
            s = st.booleans()
        elif kind == "list":
            s = lst
        elif kind == "dict":
            s = dct
        elif kind == "optfloat":
            s = st.one_of(st.none(), FLOAT)
        elif kind == "optbool":
            s = st.one_of(st.none(), st.booleans())
        else:
            s = value
        if "dom:" not in kind and kind != "any":
            s = st.one_of(s, s, s, st.none())        # a typed field holding None is still a representable value
        parts[fname] = s
    # each field present or left to its default
    return st.fixed_dictionaries({"cls": st.just(name),
                                  "vals": st.fixed_dictionaries({}, optional=parts)})


def _strategy():
    names = list(CLASSIC)
    # weight the classes with nested data objects
    weighted = names + ["ZOuter", "ZOuter", "ZMid", "ZIceTyme", "ZIceReg", "ZDefaults", "ZDefaults", "ZIceDefaults", "ZSubFlat", "ZSubFlat",
                        "ZSubInner", "ZSubIceReg", "ZHolder", "ZHolder"] + (["AckDom"] if "AckDom" in ZOO else [])
    return st.sampled_from(weighted).flatmap(
        lambda n: st.fixed_dictionaries({"obj": spec_strategy(n), "json_as_str": st.booleans()}))


def _hints_strategy():
    """nested data objects in string-annotated, Optional, list[Dom] / dict[str, Dom] and generic fields"""
    names = ["Bag", "IceBag", "ZOpt", "ZPoly", "ZFReg", "ZFIceReg", "ZFTyme", "ZFCan", "ZFSub", "ZFSub", "ZMid", "ZOuter", "ZFlat", "ZIceReg",
             "ZFReg", "ZFTyme", "ZOpt", "ZPoly"] + (["Can"] if "Can" in ZOO else [])
    return st.sampled_from(names).flatmap(
        lambda n: st.fixed_dictionaries({"obj": spec_strategy(n, 2), "json_as_str": st.booleans()}))


def _classes_strategy():
    """data classes with an init=False field or a _dictify/_datify pair, top level and nested"""
    names = ["ZNoInit", "ZIceNoInit", "ZNoInitHolder", "ZHooked", "ZHookHolder", "ZNoInitHolder", "ZHookHolder"]
    return st.sampled_from(names).flatmap(
        lambda n: st.fixed_dictionaries({"obj": spec_strategy(n), "json_as_str": st.booleans()}))


def searches(tier):
    quick = tier == "quick"
    return [("zoo", _strategy(), 3000 if quick else 30000),
            ("hints", _hints_strategy(), 1200 if quick else 12000),
            ("classes", _classes_strategy(), 400 if quick else 4000)]

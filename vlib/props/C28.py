"""C28 Data-object serialisations round-trip losslessly.

A zoo of data classes (harness classes built on every Dom base class, mutable
and frozen, with nested data-object fields typed by the class, plus the tree's
own Bag / IceBag / multidoing memo Doms) x generated field values from the
domain common to JSON, CBOR and MessagePack.  For each codec X:

    cls._fromX(obj._asX()) == obj   and   type(result) is cls

and, for nested data-object fields, the nested value is again an instance of
its class (not a dict).  _fromdict(_asdict()) is checked the same way.
"""
import dataclasses
from dataclasses import dataclass, field
from typing import Any

from hypothesis import strategies as st

from hio.help import doming
from hio.help.doming import (IceRawDom, IceRegDom, IceTymeDom, RawDom, RegDom, TymeDom, namify, registerify)
from hio.base.hier import bagging
from vlib.core import Result, assert_in_tree

assert_in_tree(doming, bagging)

try:
    from hio.base import multidoing
    assert_in_tree(multidoing)
except Exception:      # noqa: BLE001 - optional part of the zoo
    multidoing = None

PID = "C28"
RULE = ("cases: (class from a zoo of 23 data classes, two of them field-less markers nested in a holder (a nested marker serialises to the empty dict), three of them subclasses that add nested data-object fields to a concrete parent which is deserialised first over RawDom/RegDom/TymeDom/IceRawDom/IceRegDom/IceTymeDom and the "
        "tree's Bag, IceBag, AckDom/AddrDom/MemoDom/BokDom, field values); values (also in fields whose declared default is not None, and None in typed fields) drawn from None, bools, ints in "
        "[-2**63, 2**64-1], finite floats, surrogate-free unicode strings, lists and string-keyed dicts of those, nested "
        "data objects in fields typed by their class; non-trivial = the object holds a nested data object or a nested "
        "container (list/dict inside list/dict); distinct = canonical hash of (class, values)")
ASSUMPTIONS = [
    "nested data objects sit in fields annotated with the nested class itself (real annotations, as in the tree's AckDom); "
    "union / string annotations and data objects inside generic Any/list/dict fields are not part of the documented conversion and are not generated",
    "values outside the common domain of the three codecs (tuples, sets, bytes, NaN/inf, non-string keys, lone surrogates, ints beyond 64 bits) are not generated",
    "equality is the data classes' own == (field-wise), plus class identity of the result and of nested data objects",
]


# ---------------------------------------------------------------- the zoo

@dataclass
class ZInner(RawDom):
    a: int = 0
    s: str = ""
    f: float = 0.0
    v: Any = None


@dataclass(frozen=True)
class ZIceInner(IceRawDom):
    a: int = 0
    s: str = ""
    v: Any = None


@registerify
@dataclass
class ZMid(RegDom):
    name: str = "mid"
    inner: ZInner = field(default_factory=ZInner)
    vals: list = field(default_factory=list)
    meta: dict = field(default_factory=dict)
    x: Any = None

    def __hash__(self):
        return hash((self.__class__.__name__,))


@namify
@registerify
@dataclass
class ZOuter(TymeDom):
    mid: ZMid = field(default_factory=ZMid)
    ice: ZIceInner = field(default_factory=ZIceInner)
    n: Any = None
    items: list = field(default_factory=list)
    d: dict = field(default_factory=dict)

    def __hash__(self):
        return hash((self.__class__.__name__,))


@registerify
@dataclass(frozen=True)
class ZIceReg(IceRegDom):
    inner: ZIceInner = field(default_factory=ZIceInner)
    v: Any = None
    w: Any = None


@namify
@registerify
@dataclass(frozen=True)
class ZIceTyme(IceTymeDom):
    inner: ZIceInner = field(default_factory=ZIceInner)
    reg: ZIceReg = field(default_factory=ZIceReg)
    value: Any = None


@namify
@registerify
@dataclass
class ZFlat(TymeDom):
    value: Any = None
    other: Any = None
    flag: bool = False
    count: int = 0
    ratio: float = 0.0
    text: str = ""

    def __hash__(self):
        return hash((self.__class__.__name__,))


@namify
@registerify
@dataclass
class ZDefaults(TymeDom):
    """generic fields whose declared defaults are not None"""
    retries: Any = 3
    label: Any = "x"
    opts: Any = field(default_factory=lambda: [1, 2])
    conf: Any = field(default_factory=lambda: {"k": "v"})
    on: Any = True
    inner: ZInner = field(default_factory=lambda: ZInner(a=7, s="seven", f=7.5, v=[7]))

    def __hash__(self):
        return hash((self.__class__.__name__,))


@registerify
@dataclass(frozen=True)
class ZIceDefaults(IceRegDom):
    retries: Any = 3
    label: Any = "x"
    ratio: Any = 0.5
    on: Any = False


# subclasses of concrete data classes that ADD fields, among them nested data objects (a per-class cache or registry
# lookup that is inherited from the parent would miss exactly these)
@namify
@registerify
@dataclass
class ZSubFlat(ZFlat):
    spot: ZInner = field(default_factory=ZInner)
    extra: Any = None

    def __hash__(self):
        return hash((self.__class__.__name__,))


@dataclass
class ZSubInner(ZInner):
    deeper: ZInner = field(default_factory=ZInner)
    note: str = ""


@registerify
@dataclass(frozen=True)
class ZSubIceReg(ZIceReg):
    more: ZIceInner = field(default_factory=ZIceInner)
    z: Any = None


# data classes WITHOUT fields (markers) and a holder that nests them: a nested marker serialises to {} - an empty, falsy value
@dataclass
class ZMark(RawDom):
    pass


@dataclass(frozen=True)
class ZIceMark(IceRawDom):
    pass


@registerify
@dataclass
class ZHolder(RegDom):
    mark: ZMark = field(default_factory=ZMark)
    ice: ZIceMark = field(default_factory=ZIceMark)
    inner: ZInner = field(default_factory=ZInner)
    n: int = 0

    def __hash__(self):
        return hash((self.__class__.__name__,))


PARENT = {"ZSubFlat": "ZFlat", "ZSubInner": "ZInner", "ZSubIceReg": "ZIceReg"}

ZOO = {c.__name__: c for c in (ZInner, ZIceInner, ZMid, ZOuter, ZIceReg, ZIceTyme, ZFlat, ZDefaults, ZIceDefaults,
                               ZSubFlat, ZSubInner, ZSubIceReg, ZMark, ZIceMark, ZHolder, bagging.Bag, bagging.IceBag)}
if multidoing is not None:
    # CrewDom is left out: its default boss field is a namedtuple, outside the common domain of the codecs
    for _n in ("AddrDom", "AckDom", "MemoDom", "BokDom", "EndDom", "HandDom"):
        ZOO[_n] = getattr(multidoing, _n)


def field_plan(cls):
    """[(name, kind)] with kind 'dom:<ZooName>' | 'int' | 'str' | 'float' | 'bool' | 'list' | 'dict' | 'optfloat' | 'any'"""
    out = []
    for f in dataclasses.fields(cls):
        t = f.type
        if isinstance(t, type) and dataclasses.is_dataclass(t):
            out.append((f.name, "dom:" + t.__name__))
        elif t is int:
            out.append((f.name, "int"))
        elif t is str:
            out.append((f.name, "str"))
        elif t is float:
            out.append((f.name, "float"))
        elif t is bool:
            out.append((f.name, "bool"))
        elif t is list:
            out.append((f.name, "list"))
        elif t is dict:
            out.append((f.name, "dict"))
        elif t is Any:
            out.append((f.name, "any"))
        else:
            s = str(t)
            if "float" in s:
                out.append((f.name, "optfloat"))
            elif "bool" in s:
                out.append((f.name, "optbool"))
            else:
                out.append((f.name, "any"))
    return out


PLANS = {n: field_plan(c) for n, c in ZOO.items()}
for _n, _p in PLANS.items():
    for _f, _k in _p:
        if _k.startswith("dom:") and _k[4:] not in ZOO:
            raise AssertionError("zoo is not closed: %s.%s -> %s" % (_n, _f, _k))


# ---------------------------------------------------------------- building objects from case data

def build(spec):
    """spec = {"cls": name, "vals": {field: value-or-nested-spec}}"""
    cls = ZOO[spec["cls"]]
    kw = {}
    for fname, kind in PLANS[spec["cls"]]:
        if fname not in spec["vals"]:
            continue
        v = spec["vals"][fname]
        if kind.startswith("dom:"):
            v = build(v)
        kw[fname] = v
    return cls(**kw)


def nested_ok(obj, path="obj"):
    """every field typed by a data class holds an instance of that class (recursively)"""
    for f in dataclasses.fields(obj):
        t = f.type
        if isinstance(t, type) and dataclasses.is_dataclass(t):
            v = getattr(obj, f.name)
            if type(v) is not t:
                return "%s.%s is %s, expected %s" % (path, f.name, type(v).__name__, t.__name__)
            sub = nested_ok(v, path + "." + f.name)
            if sub:
                return sub
    return None


def _has_nested_container(v, depth=0):
    if isinstance(v, (list, dict)):
        if depth >= 1:
            return True
        it = v.values() if isinstance(v, dict) else v
        return any(_has_nested_container(x, depth + 1) for x in it)
    return False


def _spec_flags(spec):
    dom = False
    cont = False
    for fname, kind in PLANS[spec["cls"]]:
        if fname not in spec["vals"]:
            continue
        v = spec["vals"][fname]
        if kind.startswith("dom:"):
            dom = True
            d2, c2 = _spec_flags(v)
            cont = cont or c2
        elif _has_nested_container(v):
            cont = True
    return dom, cont


CODECS = [("json", "_asjson", "_fromjson"), ("cbor", "_ascbor", "_fromcbor"), ("mgpk", "_asmgpk", "_frommgpk"),
          ("dict", "_asdict", "_fromdict")]


def run_case(case):
    r = Result()
    spec = case["obj"]
    cls = ZOO[spec["cls"]]
    obj = build(spec)
    if spec["cls"] in PARENT and case.get("parent_first", True):
        pcls = ZOO[PARENT[spec["cls"]]]
        pcls._fromjson(pcls()._asjson())
        r.labels.append("subclass-after-parent")
    for name, ser, de in CODECS:
        try:
            raw = getattr(obj, ser)()
        except Exception as ex:      # noqa: BLE001
            r.fail("C28/%s-serialise-raised:%s" % (name, type(ex).__name__), repr(ex))
            continue
        if name == "json" and case.get("json_as_str"):
            try:
                raw = raw.decode()
            except UnicodeDecodeError as ex:
                r.fail("C28/json-not-utf8", repr(ex))
                continue
        try:
            back = getattr(cls, de)(raw)
        except Exception as ex:      # noqa: BLE001
            r.fail("C28/%s-deserialise-raised:%s" % (name, type(ex).__name__), "%r raw=%s" % (ex, repr(raw)[:200]))
            continue
        if type(back) is not cls:
            r.fail("C28/%s-class" % name, "got %s expected %s" % (type(back).__name__, cls.__name__))
            continue
        bad = nested_ok(back)
        if bad:
            r.fail("C28/%s-nested-class" % name, bad)
            continue
        if back != obj:
            r.fail("C28/%s-not-equal" % name, "sent %r got %r" % (obj, back))
    dom, cont = _spec_flags(spec)
    r.nontrivial = dom or cont
    r.labels.append("cls:" + spec["cls"])
    if dom:
        r.labels.append("nested-dom")
    if cont:
        r.labels.append("nested-container")
    return r


# ---------------------------------------------------------------- strategies

INT = st.one_of(st.integers(-2 ** 63, 2 ** 64 - 1), st.integers(-300, 300),
                st.sampled_from([0, -1, 255, 256, 65535, 65536, 2 ** 31, 2 ** 32 - 1, 2 ** 32, 2 ** 53 + 1, 2 ** 63 - 1,
                                 2 ** 63, 2 ** 64 - 1, -2 ** 31 - 1, -2 ** 63, -129, -32769, 23, 24]))
FLOAT = st.one_of(st.floats(allow_nan=False, allow_infinity=False),
                  st.sampled_from([0.0, -0.0, 1.0, 0.1, 1e300, 5e-324, 1.5, -2.5, 1e16, 3.0, 65504.0, 1e-7, 2.0 ** 24 + 1]))
TEXT = st.one_of(st.text(st.characters(exclude_categories=("Cs",)), max_size=12),
                 st.sampled_from(["", "\x00", "é", "\U0001f600", "\"", "\\", "\n", " ", "a" * 40, "﻿", "\x7f", "null"]))
SCALAR = st.one_of(st.none(), st.booleans(), INT, FLOAT, TEXT)
KEY = st.one_of(st.text(st.characters(exclude_categories=("Cs",)), max_size=5), st.sampled_from(["", "a", "s", "v", "inner", "0"]))
VALUE = st.recursive(SCALAR, lambda ch: st.one_of(st.lists(ch, max_size=4), st.dictionaries(KEY, ch, max_size=4)),
                     max_leaves=10)
LIST = st.lists(VALUE, max_size=4)
DICT = st.dictionaries(KEY, VALUE, max_size=4)


def spec_strategy(name):
    parts = {}
    for fname, kind in PLANS[name]:
        if kind.startswith("dom:"):
            s = spec_strategy(kind[4:])
        elif kind == "int":
            s = INT
        elif kind == "str":
            s = TEXT
        elif kind == "float":
            s = FLOAT
        elif kind == "bool":
            s = st.booleans()
        elif kind == "list":
            s = LIST
        elif kind == "dict":
            s = DICT
        elif kind == "optfloat":
            s = st.one_of(st.none(), FLOAT)
        elif kind == "optbool":
            s = st.one_of(st.none(), st.booleans())
        else:
            s = VALUE
        if not kind.startswith("dom:") and kind != "any":
            s = st.one_of(s, s, s, st.none())        # a typed field holding None is still a representable value
        parts[fname] = s
    # each field present or left to its default
    return st.fixed_dictionaries({"cls": st.just(name),
                                  "vals": st.fixed_dictionaries({}, optional=parts)})


def _strategy():
    names = sorted(ZOO)
    # weight the classes with nested data objects
    weighted = names + ["ZOuter", "ZOuter", "ZMid", "ZIceTyme", "ZIceReg", "ZDefaults", "ZDefaults", "ZIceDefaults", "ZSubFlat", "ZSubFlat",
                        "ZSubInner", "ZSubIceReg", "ZHolder", "ZHolder"] + (["AckDom"] if "AckDom" in ZOO else [])
    return st.sampled_from(weighted).flatmap(
        lambda n: st.fixed_dictionaries({"obj": spec_strategy(n), "json_as_str": st.booleans()}))


def searches(tier):
    return [("zoo", _strategy(), 3000 if tier == "quick" else 30000)]

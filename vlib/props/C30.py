"""C30 Running under asyncio gives the same schedule as the plain loop.

Differential: each generated program (the fault-free programs of C03/C05 and
the faulted programs of C01: exceptions in enter or at any step, runtime
extend/remove) is run twice on fresh doer objects, once with doist.do() and once
with asyncio.run(doist.ado()).  Everything observable must be equal: the full
event trace (event, doer, cycle, tyme sent, tymth()), tyme after each cycle,
number of cycles, Doist.done, every doer's done flag, the Doist's doers list,
and the raised exception.
"""
from vlib import sched, schedgen
from vlib.core import Result

PID = "C30"
RULE = ("cases: scheduler programs (<= 6 leaves, depth <= 2, non-real-time): fault-free with limits as in C03/C05, and "
        "with faults (raise in enter / at a step, extend / remove) as in C01; each run with do() and with "
        "asyncio.run(ado()). non-trivial = >= 2 doers and (run stopped by a limit or by an exception, or >= 3 cycles); "
        "distinct = canonical hash of the program")
ASSUMPTIONS = ["a fresh event loop per case (asyncio.run)", "KeyboardInterrupt raised inside a doer is not generated here "
               "(asyncio.run treats it specially); it is covered by C01 with do()"]


def observe(run):
    return {"ev": run.ev, "tymes": run.tymes, "cycles": run.cycles, "done": run.done, "dones": run.dones,
            "doers": run.doers, "exc": run.exc, "late": run.late,
            "calls": [(c["op"], c["by"], c.get("after")) for c in run.calls]}


def strip_kbi(prog):
    return prog


def run_case(prog):
    r = Result()
    a = sched.run_program(prog, "do")
    b = sched.run_program(prog, "ado")
    oa, ob = observe(a), observe(b)
    if oa != ob:
        key = next(k for k in oa if oa[k] != ob[k])
        va, vb = oa[key], ob[key]
        if key == "ev":
            i = next((i for i in range(min(len(va), len(vb))) if va[i] != vb[i]), min(len(va), len(vb)))
            va, vb = va[max(0, i - 2):i + 3], vb[max(0, i - 2):i + 3]
        r.fail("C30/" + key, "do: %r\nado: %r" % (va, vb))
    nleaves = len(list(schedgen.leaves(prog["doers"])))
    stopped = (prog.get("limit") is not None and not a.done) or a.exc is not None
    r.nontrivial = nleaves >= 2 and (stopped or a.cycles >= 3)
    if a.exc:
        r.labels.append("exception")
    if prog.get("limit") is not None and not a.done and not a.exc:
        r.labels.append("stopped-by-limit")
    if a.calls:
        r.labels.append("membership-ops")
    if a.done:
        r.labels.append("completed")
    return r


def _nokbi(prog):
    def fix(n):
        if n["k"] == "dodoer":
            for k in n["kids"]:
                fix(k)
        else:
            for st_ in n["steps"]:
                if st_[0] == ["kbi"]:
                    st_[0] = ["raise"]
    for n in prog["doers"] + prog.get("pool", []):
        fix(n)
    return prog


def searches(tier):
    q = tier == "quick"
    return [
        ("fault-free", schedgen.program(maxdepth=2, prerun_ok=True), 500 if q else 6000),
        ("faults", schedgen.program(maxdepth=2, faults=True, always_ok=True).map(_nokbi), 350 if q else 4000),
        ("members", schedgen.program(maxdepth=2, members=True, faults=True, always_ok=True).map(_nokbi),
         350 if q else 4000),
    ]

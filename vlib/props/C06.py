"""C06 Runtime extend/remove take effect exactly and preserve membership.

Programs whose doers call extend()/remove() on the scheduler that is running
them (the Doist, or a DoDoer(always=True, tock=0) under it) at arbitrary steps.
Validity predicates, checked from the record the calling doer makes immediately
before and after each call, and from the trace:

  extend   each doer not already present is entered inside the call, exactly once
           (also when the argument list names it twice); a doer already present
           produces no event; list after = list before + new doers in order; the
           new doer's first recur is in the next cycle (never the current one) at
           the scheduler tyme of that cycle.
  remove   each present, live target other than the caller has cease then exit
           inside the call and never recurs again in that lifecycle; the caller
           removing itself is not closed by the call and goes on recurring as its
           script says; list after = list before - targets.
  always   a scheduler's doers list changes only through these calls
           (before of call k+1 == after of call k; final list == last after).
  members  the listed doers are the running doers: a doer is never entered again while its lifecycle under that scheduler
           is still open (one membership = one running generator), and every doer still listed by a scheduler that
           was entered has itself been entered.  The calls may also come from a doer's ENTER context (Doer.enter(), the
           code before the first yield of a generator function), i.e. while the scheduler is still entering its doers.
  order    (clause of C03's statement, "within a cycle, due doers run at most once each, in enter order", which makes no
           exception for doers added at run time; only C06's programs have the calls): within a cycle the doers of one
           scheduler recur in the order in which their current lifecycles were entered (= the order of their enter
           events, also for a doer that was entered from inside another doer's enter context: own signature).
"""
from vlib import sched, schedgen
from vlib.core import Result

PID = "C06"
RULE = ("cases: scheduler programs whose scripted steps call extend / remove (targets: self, live siblings by index, "
        "pool doers, duplicates in one list, already present, already removed, completed) on their own host - a Doist "
        "or a DoDoer(always=True, tock 0) - from a recur step or from the doer's enter context (while the scheduler is still "
        "entering its doers; also inside a pool DoDoer that is extended in at a later cycle); <= 6 leaves, pool <= 3, <= 6 steps, limit always set. non-trivial = a remove "
        "of a live doer that had not yet run in that cycle, or an extend and a remove in the same cycle, or >= 3 "
        "membership calls; distinct = canonical hash of the program")
ASSUMPTIONS = ["calls are made only on the scheduler that is currently running the caller (documented use)",
               "never generated because the API leaves them undefined: removing a DoDoer from inside its own descendant; "
               "re-adding a doer that is still running (after removing itself, or one that an extend() call still in "
               "progress is about to enter); removing, from an enter context, a doer whose own extend() call triggered "
               "that enter; a pool doer's own enter context making a call on the scheduler that is just adding it",
               "a pair of doers of which one was added from the other's enter context (nested enters) is ordered by the start "
               "of their enters (the order of the enter events)",
               "a doer that is restarted (remove then extend in one context) is a leaf whose own enter context makes no call"]


def dedupe(xs):
    out = []
    for x in xs:
        if x not in out:
            out.append(x)
    return out


def judge(prog, run, r):
    if run.exc == "Runaway":
        r.fail("C06/run-did-not-terminate", "")
        return
    ev = run.ev
    start = float(prog.get("tyme", 0.0))
    cyc_tyme = [start] + run.tymes
    if members_running(run, r):
        return
    hosts_last = {}
    initial = {"doist": None}
    removed_later = {}
    for k, c in enumerate(run.calls):
        if c["op"] == "remove":
            for n in c["args"]:
                removed_later.setdefault(n, []).append(c["seq0"])
    for k, c in enumerate(run.calls):
        host = c["host"]
        if host in hosts_last and hosts_last[host] != c["before"]:
            r.fail("C06/list-changed-between-calls", "%s.doers was %r after the previous call, %r before call #%d" % (
                host, hosts_last[host], c["before"], k))
            return
        w0, w1 = c["seq0"], c.get("seq1", len(ev))
        # events inside the call, without those of calls nested in it (made from the enter context of a doer that this
        # call enters, on whatever scheduler): they are judged with their own call
        inner = [(cc["seq0"], cc.get("seq1", len(ev))) for cc in run.calls[k + 1:] if w0 <= cc["seq0"] < w1]
        win = [e for e in ev[w0:w1] if not any(a <= e[0] < b for a, b in inner)]
        if c.get("exc"):
            hosts_last[host] = c.get("after", c["before"])
            continue      # a call that raised is judged by C01/C02 only
        if c["op"] == "extend":
            new = dedupe([n for n in c["args"] if n not in c["before"]])
            exp = c["before"] + new
            if c["after"] != exp:
                r.fail("C06/extend-list", "call #%d extend(%r): doers %r -> %r, expected %r" % (
                    k, c["args"], c["before"], c["after"], exp))
                return
            for n in dedupe(c["args"]):
                es = [e for e in win if e[2] == n and e[1] == "E"]
                if n in c["before"]:
                    if any(e[2] == n for e in win):
                        r.fail("C06/extend-present-not-noop", "call #%d: %s already present but got events %r" % (
                            k, n, [(e[1]) for e in win if e[2] == n]))
                        return
                    continue
                if len(es) != 1:
                    sig = "C06/extend-entered-twice" if len(es) > 1 else "C06/extend-not-entered"
                    r.fail(sig, "call #%d extend(%r): %s entered %d times inside the call" % (k, c["args"], n, len(es)))
                    return
                if any(e[2] == n and e[1] == "R" for e in win):
                    r.fail("C06/extend-recur-inside-call", "%s recurred inside extend()" % n)
                    return
                # first recur of this lifecycle
                after = [e for e in ev[w1:] if e[2] == n]
                first = None
                for e in after:
                    if e[1] == "E":
                        break
                    if e[1] == "R":
                        first = e
                        break
                if first is not None:
                    # a call made from an enter context before the scheduler's first cycle: the next cycle is the first
                    nextcyc = c["cycle"] if c.get("prerun") else c["cycle"] + 1
                    if first[3] != nextcyc:
                        r.fail("C06/extend-first-recur-cycle", "%s extended in cycle %d first recurred in cycle %d" % (
                            n, c["cycle"], first[3]))
                        return
                    if first[4] != cyc_tyme[first[3]]:
                        r.fail("C06/extend-first-recur-tyme", "%s first recur sent %r, cycle tyme %r" % (
                            n, first[4], cyc_tyme[first[3]]))
                        return
        else:
            targets = dedupe([n for n in c["args"] if n in c["before"]])
            exp = [n for n in c["before"] if n not in targets]
            if c["after"] != exp:
                r.fail("C06/remove-list", "call #%d remove(%r): doers %r -> %r, expected %r" % (
                    k, c["args"], c["before"], c["after"], exp))
                return
            open_before = set()
            entered_at = {}
            for e in ev[:w0]:
                if e[1] == "E":
                    open_before.add(e[2])
                    entered_at[e[2]] = e[0]
                elif e[1] == "X":
                    open_before.discard(e[2])
            # a pool doer object can have finished under this scheduler (it stays listed in .doers) and be running a
            # new lifecycle under ANOTHER scheduler: that lifecycle is not this scheduler's to close
            elsewhere = {}        # name -> the other scheduler its open lifecycle runs under
            for n in list(open_before):
                hosts = [h for (sq, nm, h) in run.ctx.host_log if nm == n and sq <= entered_at.get(n, -1)]
                if hosts and (getattr(hosts[-1], "vname", None) or "doist") != c["host"]:
                    open_before.discard(n)
                    elsewhere[n] = getattr(hosts[-1], "vname", None) or "doist"
            for n in targets:
                mine = [e[1] for e in win if e[2] == n and e[1] != "x"]
                if n == c["by"]:
                    if mine:
                        r.fail("C06/self-remove-closed", "call #%d: %s removed itself and got %r inside the call" % (
                            k, n, mine))
                        return
                    continue
                if n not in open_before:
                    if mine and n in elsewhere:
                        # it runs under another scheduler: if that scheduler (or one above it) is itself removed by
                        # this call, the doer is legitimately closed as its child
                        h, chain = elsewhere[n], set()
                        while h and h != "doist" and h not in chain:
                            chain.add(h)
                            hh = run.ctx.host.get(h)
                            h = getattr(hh, "vname", None) or "doist"
                        if chain & set(targets):
                            continue
                    if mine:
                        r.fail("C06/remove-dead-doer-events", "call #%d: %s was not live but got %r" % (k, n, mine))
                        return
                    continue
                if n in run.kids:
                    ok = bool(mine) and mine[0] == "Z" and mine[-1] == "X" and mine.count("Z") == 1 and mine.count("X") == 1
                else:
                    ok = mine == ["Z", "X"]
                if not ok:
                    r.fail("C06/remove-not-closed-in-call", "call #%d remove(%r) by %s: live doer %s got %r inside the "
                           "call, expected cease then exit" % (k, c["args"], c["by"], n, mine))
                    return
                for e in ev[w1:]:
                    if e[2] == n and e[1] == "E":
                        break
                    if e[2] == n and e[1] == "R":
                        r.fail("C06/removed-doer-recurred", "%s recurred (cycle %d) after being removed in cycle %d" % (
                            n, e[3], c["cycle"]))
                        return
        hosts_last[host] = c["after"]
    # self-removed doers keep running: they must not be force-closed by anything but the final stop / their own return,
    # and must recur in the following cycle when their script continues with an asap yield
    for k, c in enumerate(run.calls):
        if c["op"] != "remove" or c.get("exc") or c["by"] not in c["args"] or c["by"] not in c["before"]:
            continue
        n = c["by"]
        spec = run.ctx.spec.get(n)
        if spec is None:
            continue
        # recur events of the lifecycle the call was made in only (a pool doer may live several lifecycles; its script
        # starts again with each)
        born = max([e[0] for e in ev if e[2] == n and e[1] == "E" and e[0] < c["seq0"]], default=-1)
        rs = [e for e in ev if e[2] == n and e[1] == "R" and e[0] > born]
        if c.get("where") == "enter" or not any(e[0] < c["seq0"] for e in rs):
            continue      # removed itself from its enter context: no script step to continue from
        idx = max(i for i, e in enumerate(rs) if e[0] < c["seq0"])
        more_steps = idx + 1 < len(spec["steps"]) or spec["end"][0] == "forever"
        y = spec["steps"][idx][1] if idx < len(spec["steps"]) else None
        ended_here = run.exc is not None or run.cycles <= c["cycle"] + 1
        host_alive = c["host"] == "doist" or c["host"] in run.trace.open or True
        if more_steps and not y and not ended_here:
            nxt = [e for e in rs if e[3] == c["cycle"] + 1]
            closed_by_other = any(n in cc["args"] and cc is not c for cc in run.calls if cc["op"] == "remove")
            parent_closed = _host_closed_before(run, c)
            if not nxt and not closed_by_other and not parent_closed:
                r.fail("C06/self-removed-stopped-running", "%s removed itself in cycle %d with steps left and an asap "
                       "yield but did not recur in cycle %d" % (n, c["cycle"], c["cycle"] + 1))
                return
    # final list
    by_host = {}
    for c in run.calls:
        by_host[c["host"]] = c
    for host, c in by_host.items():
        final = run.doers if host == "doist" else run.kids.get(host)
        if final is not None and "after" in c and final != c["after"]:
            r.fail("C06/list-changed-after-last-call", "%s.doers %r at the end, %r after its last call" % (
                host, final, c["after"]))
            return
    recur_order(run, r)


def members_running(run, r):
    """One membership = one running lifecycle; every listed doer of an entered scheduler has been entered."""
    openl = {}
    for e in run.ev:
        seq, code, name = e[0], e[1], e[2]
        if code == "E":
            if name in openl:
                r.fail("C06/member-entered-twice", "%s (host %s) was entered again (event %d, cycle %d) while the lifecycle "
                       "entered at event %d was still running: two running generators for one membership" % (
                           name, sched.lifecycle_host(run, name, seq), seq, e[3], openl[name]))
                return True
            openl[name] = seq
        elif code == "X":
            openl.pop(name, None)
    if run.exc is None:
        entered = {e[2] for e in run.ev if e[1] == "E"}
        for host, lst in [("doist", run.doers)] + sorted(run.kids.items()):
            if host != "doist" and host not in entered:
                continue
            for n in lst:
                if n not in entered:
                    r.fail("C06/member-never-entered", "%s is listed in %s.doers %r at the end of the run (never removed) "
                           "but was never entered and never ran" % (n, host, lst))
                    return True
    return False


def recur_order(run, r):
    """Within a cycle the doers of one scheduler recur in the order their current lifecycles were entered."""
    cur = {}        # name -> seq of the enter of its current lifecycle
    hostof = {}     # (name, enter seq) -> scheduler running that lifecycle
    last = {}       # (host, cycle) -> (name, enter seq) of the latest recur
    extended = any(c["op"] == "extend" and not c.get("exc") for c in run.calls)
    for e in run.ev:
        seq, code, name, cyc = e[0], e[1], e[2], e[3]
        if code == "E":
            cur[name] = seq
        elif code == "R" and name in cur:
            lk = (name, cur[name])
            if lk not in hostof:
                hostof[lk] = sched.lifecycle_host(run, name, cur[name])
            key = (hostof[lk], cyc)
            prev = last.get(key)
            if prev is not None and prev[1] > cur[name]:
                r.fail("C06/recur-order-of-doer-entered-from-an-enter-context"
                       if sched.nested_enter(run, cur[name], name, prev[1]) else
                       "C06/recur-order-after-extend" if extended else "C06/recur-order",
                       "cycle %d under %s: %s (entered at event %d) recurred before %s (entered earlier, at event %d)" % (
                           cyc, key[0], prev[0], prev[1], name, cur[name]))
                return
            last[key] = (name, cur[name])


def _host_closed_before(run, c):
    """True when the host DoDoer of call c was itself closed during or right after that cycle."""
    if c["host"] == "doist":
        return False
    for e in run.ev[c["seq0"]:]:
        if e[2] == c["host"] and e[1] in ("Z", "A", "C") and e[3] <= c["cycle"] + 1:
            return True
    return False


def run_case(prog):
    r = Result()
    run = sched.run_program(prog, prog.get("mode") or "do")
    judge(prog, run, r)
    calls = [c for c in run.calls if not c.get("exc")]
    cyc_ops = {}
    for c in calls:
        cyc_ops.setdefault((c["host"], c["cycle"]), set()).add(c["op"])
    both = any(len(v) == 2 for v in cyc_ops.values())
    notyet = False
    for c in calls:
        if c["op"] != "remove":
            continue
        for n in c["args"]:
            if n in c["before"] and n != c["by"]:
                ran = any(e[2] == n and e[1] == "R" and e[3] == c["cycle"] for e in run.ev[:c["seq0"]])
                live = any(e[2] == n and e[1] == "Z" for e in run.ev[c["seq0"]:c.get("seq1", 0)])
                if live and not ran:
                    notyet = True
    r.nontrivial = notyet or both or len(calls) >= 3
    if notyet:
        r.labels.append("remove-not-yet-run-live-doer")
    if both:
        r.labels.append("extend+remove-same-cycle")
    if any(c["by"] in c["args"] and c["op"] == "remove" for c in calls):
        r.labels.append("self-remove")
    if any(len(c["args"]) != len(set(c["args"])) for c in calls):
        r.labels.append("duplicate-in-list")
    if any(c["host"] != "doist" for c in calls):
        r.labels.append("dodoer-host")
    if run.trace.skipped:
        r.labels.append("undefined-target-skipped")
    if any(c.get("exc") for c in run.calls):
        r.labels.append("call-raised")
    r.labels.append("calls=%d" % min(len(calls), 5))
    r.labels.append("mode:" + (prog.get("mode") or "do"))
    return r


def _prog(draw_always):
    return schedgen.program(maxdepth=1, members=True, limit="always", always_ok=draw_always, dd_tocks=(0.0,),
                            dd_odds=2, force_always=True)


def searches(tier):
    q = tier == "quick"
    return [("enter-context-calls", schedgen.program(maxdepth=1, members=True, limit="always", always_ok=True,
                                                     dd_tocks=(0.0,), dd_odds=3, force_always=True, enter_ops=True,
                                                     min_leaves=2, max_steps=4), 400 if q else 8000),
            ("doist-host", schedgen.program(maxdepth=0, members=True, limit="always"), 1200 if q else 15000),
            ("dodoer-always-host", _prog(True), 1200 if q else 15000),
            ("group-calls", schedgen.program(maxdepth=1, members=True, limit="always", always_ok=True, dd_tocks=(0.0,),
                                             dd_odds=2, force_always=True, group_ops=True, min_leaves=4, max_leaves=8,
                                             max_steps=4), 800 if q else 10000),
            ("same-cycle-calls", schedgen.same_cycle_program(), 1000 if q else 15000)]

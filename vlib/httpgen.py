"""Structured HTTP/1.x message generators: a *spec* first, bytes second, so the
expected parse is known without parsing.  Used by C13, C16, C17, C18.

Message spec (JSON-able)
  request : {"t": "req", "method", "target", "version", "headers": [[name, value]...], "frame": "none"|"len"|"chunked",
             "body": bytes, "sizes": [chunk sizes], "exts": [[[name, val|None]...] per chunk incl. last],
             "trailers": [[name, value]...], "eol": "crlf"|"lf", "hexupper": bool, "lz": int (leading zeros),
             "conn": None|"close"|"keep-alive"}
  response: {"t": "resp", "version", "status", "reason", ... same ..., "frame": "len"|"chunked"|"close"|"nobody",
             "pre100": bool | 2 | 3 (number of interim 100 responses), "reqmethod": "GET"|"HEAD"}
"""
from urllib.parse import unquote, urlsplit

from hypothesis import strategies as st

TOKEN = "abcdefghijklmnopqrstuvwxyzABCDEFGHIJKLMNOPQRSTUVWXYZ0123456789-_"
RESERVED_NAMES = {"content-length", "transfer-encoding", "connection", "content-type", "keep-alive",
                  "proxy-connection", "host", "server", "date", "location"}
METHODS = ["GET", "HEAD", "PUT", "PATCH", "POST", "DELETE", "OPTIONS", "TRACE", "CONNECT"]


def eol_of(spec):
    return b"\r\n" if spec.get("eol", "crlf") == "crlf" else b"\n"


def chunked_body(spec):
    """Encode spec['body'] per spec['sizes'] with extensions and trailers."""
    out = bytearray()
    body = spec["body"]
    pos = 0
    exts = spec.get("exts") or []
    sizes = [s for s in spec.get("sizes", []) if s > 0]
    # normalise sizes to cover the body exactly
    parts = []
    for s in sizes:
        if pos >= len(body):
            break
        parts.append(body[pos:pos + s])
        pos += s
    if pos < len(body):
        parts.append(body[pos:])
    for i, part in enumerate(parts + [b""]):
        h = format(len(part), "X" if spec.get("hexupper") else "x")
        h = "0" * spec.get("lz", 0) + h
        line = h.encode("ascii")
        for name, val in (exts[i] if i < len(exts) else []):
            line += b";" + name.encode("ascii")
            if val is not None:
                line += b"=" + val.encode("ascii")
        out += line + b"\r\n"
        if part:
            out += part + b"\r\n"
    e = eol_of(spec)
    for name, val in spec.get("trailers", []):
        out += name.encode("latin-1") + b": " + val.encode("latin-1") + e
    out += e
    return bytes(out), parts


def build(spec):
    e = eol_of(spec)
    lines = []
    if spec["t"] == "req":
        lines.append(("%s %s %s" % (spec["method"], spec["target"], spec["version"])).encode("latin-1"))
    else:
        lines.append(("%s %d %s" % (spec["version"], spec["status"], spec["reason"])).encode("latin-1"))
    hdrs = [list(h) for h in spec["headers"]]
    if spec.get("conn"):
        hdrs.append(["Connection", spec["conn"]])
    if spec.get("ctype"):
        hdrs.append(["Content-Type", spec["ctype"]])
    frame = spec["frame"]
    if frame == "len":
        hdrs.append(["Content-Length", str(len(spec["body"]))])
    elif frame == "chunked":
        hdrs.append(["Transfer-Encoding", "chunked"])
    for n, v in hdrs:
        lines.append(n.encode("latin-1") + b": " + v.encode("latin-1"))
    head = e.join(lines) + e + e
    if frame == "chunked":
        body, _parts = chunked_body(spec)
    elif frame in ("len", "close"):
        body = bytes(spec["body"])
    else:
        body = b""
    pre = b""
    if spec["t"] == "resp" and spec.get("pre100"):
        # True / 1: one interim response; 2-3: several; odd counts > 1 carry a header in the interim responses
        n100 = 1 if spec["pre100"] is True else int(spec["pre100"])
        one = b"HTTP/1.1 100 Continue" + e + ((b"X-Interim: yes" + e) if n100 > 2 else b"") + e
        pre = one * n100
    return pre + head + body


def expected_headers(spec):
    out = {}
    hdrs = [list(h) for h in spec["headers"]]
    if spec.get("conn"):
        hdrs.append(["Connection", spec["conn"]])
    if spec.get("ctype"):
        hdrs.append(["Content-Type", spec["ctype"]])
    if spec["frame"] == "len":
        hdrs.append(["Content-Length", str(len(spec["body"]))])
    elif spec["frame"] == "chunked":
        hdrs.append(["Transfer-Encoding", "chunked"])
    for n, v in hdrs:
        out[n.lower()] = v
    return out


def expected(spec):
    """What a correct parser recovers from build(spec) (the fields the property names)."""
    exp = {"headers": expected_headers(spec), "errored": False}
    frame = spec["frame"]
    exp["body"] = bytes(spec["body"]) if frame in ("len", "chunked", "close") else b""
    if frame == "chunked":
        exp["trails"] = {n.lower(): v for n, v in spec.get("trailers", [])}
        parms = {}
        _b, parts = chunked_body(spec)
        exts = spec.get("exts") or []
        for i in range(len(parts) + 1):
            for name, val in (exts[i] if i < len(exts) else []):
                parms[name.encode("ascii")] = val.encode("ascii") if val else None
        exp["parms"] = parms
    conn = (spec.get("conn") or "").lower()
    if spec["t"] == "req":
        exp["method"] = spec["method"]
        exp["url"] = spec["target"]
        sp = urlsplit(spec["target"])
        exp["path"] = unquote(sp.path)
        exp["query"] = sp.query
        exp["version"] = (1, 0) if spec["version"] == "HTTP/1.0" else (1, 1)
        if exp["version"] == (1, 1):
            exp["persisted"] = "close" not in conn
        else:
            exp["persisted"] = "keep-alive" in conn
    else:
        exp["status"] = spec["status"]
        exp["reason"] = spec["reason"].strip()
        exp["version"] = (1, 0) if spec["version"] in ("HTTP/1.0", "HTTP/0.9") else (1, 1)
    return exp


# ------------------------------------------------------------------ strategies

def header_name():
    return st.text(alphabet=TOKEN, min_size=1, max_size=12).filter(lambda s: s.lower() not in RESERVED_NAMES)


def header_value():
    # latin-1 text without CR / LF, no leading/trailing blanks (the grammar's OWS is not judged)
    alpha = st.characters(min_codepoint=0x20, max_codepoint=0xFF, blacklist_characters="\x7f")
    return st.text(alphabet=alpha, max_size=24).map(lambda s: s.strip(" \t"))


def headers(max_n=6):
    return st.lists(st.tuples(header_name(), header_value()).map(list), max_size=max_n,
                    unique_by=lambda h: h[0].lower())


def body_bytes(max_size=200):
    nasty = st.lists(st.sampled_from([b"\r\n", b"\n", b"\r", b"0\r\n\r\n", b"a", b": ", b"\r\n\r\n", b"GET / HTTP/1.1\r\n",
                                      b"5\r\n", b"\x00", b"\xff"]), max_size=12).map(b"".join)
    return st.one_of(st.binary(max_size=max_size), nasty, st.just(b""))


def ext_list():
    tok = st.text(alphabet="abcdefghijklmnopqrstuvwxyz0123456789", min_size=1, max_size=5)
    return st.lists(st.tuples(tok, st.one_of(st.none(), tok)).map(list), max_size=2, unique_by=lambda e: e[0])


PATH_SEG = st.text(alphabet="abcdefghijklmnopqrstuvwxyz0123456789-._~%20", max_size=6)


def target():
    path = st.lists(PATH_SEG, max_size=3).map(lambda segs: "/" + "/".join(s.replace("%", "%41") for s in segs))
    query = st.one_of(st.just(""), st.text(alphabet="abcxyz=&+%201", max_size=10).map(lambda q: "?" + q.replace("%", "%20")))
    return st.tuples(path, query).map(lambda t: t[0] + t[1])


@st.composite
def request_spec(draw, eols=("crlf", "crlf", "lf"), frames=("none", "len", "chunked"), max_body=200):
    frame = draw(st.sampled_from(list(frames)))
    method = draw(st.sampled_from(METHODS))
    body = draw(body_bytes(max_body)) if frame != "none" else b""
    spec = {"t": "req", "method": method, "target": draw(target()),
            "version": draw(st.sampled_from(["HTTP/1.1", "HTTP/1.1", "HTTP/1.0"])),
            "headers": draw(headers()), "frame": frame, "body": body,
            "eol": draw(st.sampled_from(list(eols))),
            "conn": draw(st.sampled_from([None, None, "close", "keep-alive", "Keep-Alive", "Close"]))}
    if frame == "chunked":
        spec["sizes"] = draw(st.lists(st.integers(1, 40), max_size=6))
        spec["exts"] = draw(st.lists(ext_list(), max_size=7))
        spec["trailers"] = draw(headers(3))
        spec["hexupper"] = draw(st.booleans())
        spec["lz"] = draw(st.sampled_from([0, 0, 0, 1, 3]))
    return spec


@st.composite
def response_spec(draw, eols=("crlf", "crlf", "lf"), frames=("len", "chunked", "close", "nobody"), max_body=200):
    frame = draw(st.sampled_from(list(frames)))
    status = draw(st.sampled_from([200, 200, 201, 404, 500, 206])) if frame != "nobody" else draw(st.sampled_from([204, 304]))
    body = draw(body_bytes(max_body)) if frame != "nobody" else b""
    spec = {"t": "resp", "version": draw(st.sampled_from(["HTTP/1.1", "HTTP/1.1", "HTTP/1.0"])),
            "status": status, "reason": draw(st.sampled_from(["OK", "Not Found", "Created", "", "Very Odd Reason"])),
            "headers": draw(headers()), "frame": frame, "body": body,
            "eol": draw(st.sampled_from(list(eols))),
            "conn": draw(st.sampled_from([None, None, "close", "keep-alive"])),
            "pre100": draw(st.sampled_from([False, False, False, False, False, False, True, True, 2, 3])), "reqmethod": "GET"}
    if frame == "chunked":
        spec["sizes"] = draw(st.lists(st.integers(1, 40), max_size=6))
        spec["exts"] = draw(st.lists(ext_list(), max_size=7))
        spec["trailers"] = draw(headers(3))
        spec["hexupper"] = draw(st.booleans())
        spec["lz"] = draw(st.sampled_from([0, 0, 0, 1, 3]))
    return spec


def cuts():
    """A fragmentation recipe, resolved against the built byte string by fragments()."""
    return st.one_of(
        st.fixed_dictionaries({"mode": st.just("random"), "points": st.lists(st.integers(0, 10 ** 6), min_size=1, max_size=8)}),
        st.fixed_dictionaries({"mode": st.just("every"), "k": st.integers(2, 17)}),
        st.fixed_dictionaries({"mode": st.just("in-crlf"), "extra": st.lists(st.integers(0, 10 ** 6), max_size=3)}),
        st.fixed_dictionaries({"mode": st.just("after-lf"), "extra": st.lists(st.integers(0, 10 ** 6), max_size=3)}),
        # one or two cuts near the start of the data (start line / first header lines), the rest in one read
        st.fixed_dictionaries({"mode": st.just("early"), "at": st.lists(st.integers(1, 90), min_size=1, max_size=2)}),
    )


def fragments(data, recipe):
    n = len(data)
    if n < 2:
        return [data]
    pts = set()
    mode = recipe["mode"]
    if mode == "random":
        pts = {p % (n - 1) + 1 for p in recipe["points"]}
    elif mode == "every":
        pts = set(range(recipe["k"], n, recipe["k"]))
    elif mode == "in-crlf":
        pts = {i + 1 for i in range(n - 1) if data[i:i + 2] == b"\r\n"}
        pts |= {p % (n - 1) + 1 for p in recipe.get("extra", [])}
    elif mode == "after-lf":
        pts = {i + 1 for i in range(n - 1) if data[i:i + 1] in (b"\n", b"\r")}
        pts |= {p % (n - 1) + 1 for p in recipe.get("extra", [])}
    elif mode == "early":
        pts = {p for p in recipe["at"]}
    pts = sorted(p for p in pts if 0 < p < n)
    out, prev = [], 0
    for p in pts:
        out.append(data[prev:p])
        prev = p
    out.append(data[prev:])
    return out

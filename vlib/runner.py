"""./check <id> quick|thorough [--replay file] [--shards N] [--scale F]

exit 0  property held on everything explored (KNOWN-FINDING lines for listed open findings)
exit 1  VIOLATION property=<id> replay=<path>
exit 2  harness error (never a verdict)
"""
import importlib
import json
import os
import shutil
import subprocess
import sys
import time
import traceback

from vlib import core


def load(pid):
    return importlib.import_module("vlib.props." + pid)


def run_searches(ck, scale=1.0):
    mod = ck.mod
    for name, strat, n in mod.searches(ck.tier):
        ck.search(name, strat, max(1, int(n * scale)))
    if hasattr(mod, "enumerate_cases"):
        for name, cases, exhaustive in mod.enumerate_cases(ck.tier, ck.shard or 0, ck.nshards):
            ck.enumerate(name, cases, exhaustive)
    if hasattr(mod, "extra"):
        mod.extra(ck)


def finish(ck):
    ck.write_evidence()
    for line in ck.known_lines:
        print(line)
    if ck.violations:
        paths = ck.write_replays()
        for (sig, detail, _c), p in zip(ck.violations, paths):
            print("VIOLATION property=%s replay=%s" % (ck.pid, p))
            print("  signature: %s" % sig)
            print("  detail: %s" % detail.replace("\n", "\n    ")[:1500])
        return 1
    print("OK property=%s tier=%s seed=%d evaluations=%d distinct_nontrivial=%d excluded_known=%d wall=%.1fs" % (
        ck.pid, ck.tier, ck.seed, ck.evaluations, len(ck.nontrivial),
        sum(ck.excluded_known.values()), time.time() - ck.t0))
    return 0


def main(argv):
    if len(argv) < 1:
        print(__doc__)
        return 2
    pid = argv[0]
    tier = None
    replay = None
    shards = None
    shard = None
    out = None
    scale = 1.0
    i = 1
    while i < len(argv):
        a = argv[i]
        if a in ("quick", "thorough"):
            tier = a
        elif a == "--replay":
            i += 1
            replay = argv[i]
        elif a == "--shards":
            i += 1
            shards = int(argv[i])
        elif a == "--shard":
            i += 1
            shard = int(argv[i])
        elif a == "--out":
            i += 1
            out = argv[i]
        elif a == "--scale":
            i += 1
            scale = float(argv[i])
        else:
            print("unknown argument", a)
            return 2
        i += 1
    if tier is None:
        tier = os.environ.get("VERIF_TIER", "quick")
        if tier not in ("quick", "thorough"):
            tier = "quick"
    seed = int(os.environ.get("VERIF_SEED", "1") or "1")
    seed = abs(seed) % (2 ** 31)

    core.assert_tree()
    mod = load(pid)

    if replay is not None:
        with open(replay) as f:
            body = json.load(f)
        case = core.from_jsonable(body["case"] if "case" in body else body["witness"])
        ck = core.Check(mod, tier, seed)
        r = ck.evaluate(case)
        if r.failures:
            for f in r.failures:
                print("VIOLATION property=%s replay=%s" % (pid, os.path.abspath(replay)))
                print("  signature: %s" % f.sig)
                print("  detail: %s" % f.detail[:1500])
            return 1
        print("OK property=%s replay passes" % pid)
        return 0

    if shard is not None:
        # worker: searches only, partial result to --out
        ck = core.Check(mod, tier, seed * 1000 + shard, shard=shard, nshards=shards or 1)
        run_searches(ck, scale)
        with open(out, "w") as f:
            json.dump(ck.partial(), f)
        return 0

    ck = core.Check(mod, tier, seed)
    ck.run_witnesses()
    nsh = shards if shards is not None else (getattr(mod, "SHARDS", 16) if tier == "thorough" else 1)
    if nsh <= 1:
        run_searches(ck, scale)
    else:
        wd = os.path.join(core.WORK, "%s.%d" % (pid, os.getpid()))
        os.makedirs(wd, exist_ok=True)
        procs = []
        try:
            for k in range(nsh):
                o = os.path.join(wd, "shard%d.json" % k)
                cmd = [sys.executable, "-m", "vlib.runner", pid, tier, "--shard", str(k),
                       "--shards", str(nsh), "--out", o, "--scale", str(scale)]
                procs.append((k, o, subprocess.Popen(cmd, stdout=subprocess.PIPE,
                                                     stderr=subprocess.STDOUT, text=True)))
            for k, o, p in procs:
                txt, _ = p.communicate()
                if p.returncode != 0 or not os.path.exists(o):
                    raise core.HarnessError("shard %d failed (rc=%s):\n%s" % (k, p.returncode, txt[-3000:]))
                with open(o) as f:
                    ck.merge(json.load(f))
        finally:
            for _k, _o, p in procs:
                if p.poll() is None:
                    p.kill()
            shutil.rmtree(wd, ignore_errors=True)
    return finish(ck)


if __name__ == "__main__":
    try:
        rc = main(sys.argv[1:])
    except core.HarnessError as ex:
        print("HARNESS-ERROR: %s" % (ex,), file=sys.stderr)
        rc = 2
    except Exception:      # noqa: BLE001
        print("HARNESS-ERROR (uncaught):\n%s" % traceback.format_exc(), file=sys.stderr)
        rc = 2
    sys.stdout.flush()
    sys.exit(rc)

#!/bin/bash
# tools/integrate_all.sh <mapfile>   lines: <ID> <fix n> <witness suffixes...>; commit each repair to /repo and record its witnesses as fixed
while read id n ws; do
  [ -z "$id" ] && continue
  out=$(/verif/tools/integrate.sh $id $n) || { echo "FAILED $id $n: $out"; continue; }
  h=$(git -C /repo rev-parse --short HEAD)
  what=$(head -1 /verif/hunts/$id/fix_$n.msg | sed 's/^fix: *//')
  echo "$id fix_$n -> $h"
  for w in $ws; do python3 /verif/tools/addfinding.py /verif/hunts/$id/witness_$w.json fixed $h "$what"; done
done < "$1"

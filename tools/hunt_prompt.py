#!/usr/bin/env python3
"""Prompt for an independent sub-agent that HUNTS for a genuine violation of a property on the unchanged tree
(an input / history / schedule the checks may not reach).  tools/hunt_prompt.py <id> "<tests>" [suffix]"""
import json, sys
pid = sys.argv[1]
tests = sys.argv[2] if len(sys.argv) > 2 else "tests/"
suffix = sys.argv[3] if len(sys.argv) > 3 else "hunt"
p = next(json.loads(l) for l in open("/verif/properties.jsonl") if json.loads(l)["id"] == pid)
kf = json.load(open("/verif/known_findings.json"))["findings"]
known = list(dict.fromkeys(e["what"] for e in kf if e["property"] == pid))
d = "/tmp/seed_%s%s" % (pid, suffix)
knowntxt = "\n".join("    - " + w for w in known) if known else "    (none)"
print(f"""You are working in a scratch git worktree of the Python library ioflo/hio at {d} (library source under {d}/src/hio, its tests under {d}/tests). Work ONLY inside {d}. Do not read, touch or depend on /repo, /verif or any other checkout. Do not modify the library source (you may add temporary prints while investigating, but restore with `git checkout -- src`; do NOT use `git stash`).

Environment facts:
- Python is /venv/bin/python (3.12). The `hio` installed in site-packages is an OLDER release, so you must always run with `PYTHONPATH={d}/src PYTHONDONTWRITEBYTECODE=1` and, in any script, assert that `hio.__file__` starts with `{d}/src` so that the worktree code is what runs.
- No network. Other jobs on this machine may hold fixed test ports; if you open real sockets do it inside a private network namespace: `unshare -n sh -c 'ip link set lo up; exec "$@"' sh <command...>`. The hio test-suite leaves directories named /tmp/hio_*_test behind; remove those you created when done. Relevant existing tests: {tests}

A property of hio that users rely on:

  {p['id']}: {p['title']}
  Statement: {p['statement']}
  Quantified over: {p['quantifier']['text']}
  Anchored in: {', '.join(p['anchors']['files'])}

Your task: act as an adversarial reviewer and find a GENUINE violation of this property in the code as it stands - a concrete input, operation sequence, schedule, fragmentation, fault or history (inside the quantified domain, using the public API the way a real caller would) for which the code observably does something the statement forbids. Read the anchored code and its callers closely; think about second use of an object (reuse after reset / reopen / reconnect), variants and subclasses (TLS variants, asyncio variants, Bare / Ice / Tyme variants, udp vs uxd), boundary values (zero, empty, exactly-at-limit, one past), Python evaluation-order and aliasing traps (an attribute read before a property getter mutates it, a shared mutable default, a list mutated while iterated), state carried between cycles or messages, unusual but legal argument combinations, and sequences of three or more interacting operations. Try your candidate inputs for real; only report what you have actually observed failing.

These violations of this property are ALREADY KNOWN (fixed or recorded); do not report them again, look for something with a different root cause:
{knowntxt}

Be strict about what counts: the statement, as written, must forbid the observed behaviour. Behaviour on inputs outside the quantified domain, values the statement does not mention (return values, log text, exception messages), or a stricter reading than the text supports do NOT count. If after a serious search (at least 5 distinct lines of attack, each actually executed) you find nothing, say so - an honest "no violation found" with the list of what you tried is a useful result; do not inflate.

Deliverables, all inside {d}/seed_out/ :
  1. demo.py   - standalone script; for each violation found it reproduces it on the UNCHANGED worktree and prints the failing input and what was observed versus what the statement requires; exit 1 if any violation reproduces, 0 if none. (If you found nothing: a script that runs your strongest attempted scenarios and exits 0.)
  2. meta.json - {{"property": "{p['id']}", "found": true/false, "violations": [{{"what": "...", "input": "...minimal failing input/history...", "observed": "...", "required_by_statement": "...quote the clause...", "root_cause": "file:line and why", "suggested_fix": "minimal patch idea"}}], "tried": ["each line of attack executed and its outcome"]}}
  3. (optional) fix.diff - a minimal `git diff` that repairs the root cause, if the repair is a few lines; verify demo.py exits 0 with it and the relevant existing tests give the same results, then restore the source.

Leave the worktree with the source restored to HEAD (clean `git status` apart from seed_out/ and TASK.md). Reply with a short summary: found or not, and for each violation the minimal input and root cause.""")

#!/bin/bash
# tools/integrate.sh <ID> <n>   apply hunts/<ID>/fix_<n>.diff to /repo (3-way if needed) and commit it with hunts/<ID>/fix_<n>.msg
id="$1"; n="$2"; d=/verif/hunts/$id
cd /repo || exit 2
[ -z "$(git status --porcelain)" ] || { echo "/repo not clean"; exit 2; }
git apply --3way $d/fix_$n.diff || { echo "does not apply"; git checkout -q -- .; exit 1; }
msg=$(cat $d/fix_$n.msg)
case "$msg" in fix:*) ;; *) echo "message does not start with fix:"; git checkout -q -- .; git reset -q; exit 1;; esac
git add -A src && git commit -q -m "$msg" && git log --oneline -1

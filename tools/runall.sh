#!/bin/bash
# tools/runall.sh [tier] [seeds...]   run every claimed check, one line per (check, seed); evidence left from the last seed
cd "$(dirname "${BASH_SOURCE[0]}")/.."
tier="${1:-quick}"; shift
seeds="${@:-1}"
ids=$(python3 -c "import json;print(' '.join(c['property_id'] for c in json.load(open('MANIFEST.json'))['checks']))")
for sd in $seeds; do
  for c in $ids; do
    out=$(VERIF_SEED=$sd ./check $c $tier 2>&1); rc=$?
    line=$(echo "$out" | grep -a "^OK\|^VIOLATION\|HARNESS" | head -1 | cut -c1-150)
    nk=$(echo "$out" | grep -a -c "^KNOWN-FINDING")
    echo "seed=$sd $c rc=$rc known=$nk $line"
    if [ $rc -ge 2 ]; then echo "$out" | tail -15 | sed 's/^/      | /'; fi
  done
done

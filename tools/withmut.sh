#!/bin/bash
# tools/withmut.sh '<sed-expr>' <file-relative-to-/repo> <check args...>   apply a sed mutation to the tree, run ./check, revert
expr="$1"; file="$2"; shift 2
cd /repo && cp "$file" /tmp/.mut_backup && sed -i "$expr" "$file" && git diff --stat | tail -1
cd /verif && ./check "$@" 2>&1 | head -8; rc=${PIPESTATUS[0]}
cd /repo && cp /tmp/.mut_backup "$file" && rm -f /tmp/.mut_backup && git status --short
echo "rc=$rc"

#!/usr/bin/env python3
"""Print the prompt given to an independent seeding sub-agent for property <id> (text only, nothing from /verif's checks)."""
import json, sys
pid = sys.argv[1]
tests = sys.argv[2] if len(sys.argv) > 2 else "tests/"
p = next(json.loads(l) for l in open("/verif/properties.jsonl") if json.loads(l)["id"] == pid)
suffix = sys.argv[3] if len(sys.argv) > 3 else ""
d = "/tmp/seed_%s%s" % (pid, suffix)
hint = (" Prefer a less obvious place for the change than the first function that comes to mind: a helper it relies on, a "
        "variant or subclass that shares the behaviour (e.g. a TLS flavour, another server / store / doer class the statement "
        "also covers), an option or code path that default usage does not take, or a rarely exercised branch of the main path.") if suffix == "c" else ""
if suffix >= "f":
    hint = (" Prefer a SILENT bug: nothing raises, nothing hangs, no log line; the only symptom is a wrong but plausible value, "
            "order or piece of state (something left behind, counted twice, attributed to the wrong party, off by one) that a "
            "casual observer would accept. Avoid changes whose first symptom is an exception or an obviously broken result.")
elif suffix >= "e":
    hint = (" Prefer a bug that sits at an exact boundary rather than in the common middle of the range: a value equal to a "
            "limit, size or deadline, an empty or single-element collection, the first or the last element, two events that "
            "fall into the same cycle / the same read / the same call, a resource touched exactly once more than usual.")
elif suffix >= "d":
    hint = (" Prefer a bug that only shows through state carried over from an earlier operation on the same object (a second "
            "run / request / reopen / rebuild, an object reused after it finished, something cached on the instance or class), "
            "or through the interaction of two features or options that each work alone.")
print(f"""You are working in a scratch git worktree of the Python library ioflo/hio at {d} (library source under {d}/src/hio, its tests under {d}/tests). Work ONLY inside {d}. Do not read, touch or depend on /repo, /verif or any other checkout.

Environment facts:
- Python is /venv/bin/python (3.12). The `hio` installed in site-packages is an OLDER release, so you must always run with `PYTHONPATH={d}/src PYTHONDONTWRITEBYTECODE=1` and, in any script, assert that `hio.__file__` starts with `{d}/src` so that the worktree code is what runs.
- No network. pytest is available: `cd {d} && PYTHONPATH={d}/src PYTHONDONTWRITEBYTECODE=1 /venv/bin/python -m pytest -q -p no:cacheprovider {tests}`. A few tests already fail on the unchanged tree (Python-version differences); what matters is that the set of passing/failing tests is the same before and after your change. The hio test-suite leaves directories named /tmp/hio_*_test behind; remove those you created when done.

The property of hio you are asked to break:

  {p['id']}: {p['title']}
  Statement: {p['statement']}
  Quantified over: {p['quantifier']['text']}
  Anchored in: {', '.join(p['anchors']['files'])}

Your task: make ONE small, realistic change to the library source under src/hio that makes this property false, while the package still imports and the existing tests listed above give exactly the same pass/fail results as before your change. The change must look like a plausible maintenance bug (refactoring slip, off-by-one, wrong comparison, lost update, missed edge case, two sites that each look fine alone), and it must NOT be something ordinary use would expose at once: it should need something specific to manifest - a particular interleaving or step, a fault at a particular point, a multi-step sequence of operations, an unusual but legal input, or a specific combination of settings. Do not make the change trivially detectable (no syntax errors, no always-raising code), and do not edit tests.{hint}

Deliverables, all inside {d}/seed_out/ :
  1. patch.diff  - `git diff` of your source change only (it must apply with `git apply` to a clean checkout of this worktree's HEAD).
  2. demo.py     - a standalone demonstration script that exits 0 when the property holds on the scenario it exercises and exits 1 (printing what went wrong) when it is violated. It must FAIL (exit 1) with your change applied and PASS (exit 0) without it. It should only use the public behaviour named in the property.
  3. meta.json   - {{"property": "{p['id']}", "summary": "...what was changed...", "needs": "...what specific condition is needed for the breakage to show...", "files": [...], "ran": ["commands you ran and their outcomes"]}}

Before you finish: verify yourself that (a) demo.py exits 1 with the patch and 0 without it (switch with `git apply seed_out/patch.diff` and `git checkout -- src`; do NOT use `git stash`: the stash is shared between all worktrees of the repository and other jobs use it concurrently), (b) the existing tests named above have the same results with and without the patch, then leave the worktree with the source restored to HEAD (clean `git status` apart from seed_out/). Reply with a short summary of the change and what is needed to trigger it.""")

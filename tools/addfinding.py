#!/usr/bin/env python3
"""tools/addfinding.py <replay.json> <open|fixed> <commit-or-'-'> "<what>"   append a finding (witness = the replay's case)"""
import json, sys
rp, status, commit, what = sys.argv[1:5]
r = json.load(open(rp))
p = "/verif/known_findings.json"
d = json.load(open(p))
pid, sig = r["property"], r["signature"]
if any(e["property"] == pid and e["signature"] == sig and e.get("commit", "-") == commit for e in d["findings"]):
    print("already listed", pid, sig); sys.exit(0)
e = {"property": pid, "status": status, "signature": sig}
if status == "fixed":
    e["commit"] = commit
    e["line"] = "fixed: property=%s %s %s" % (pid, commit, what)
else:
    e["line"] = "KNOWN-FINDING: property=%s %s" % (pid, what)
e["what"] = what
e["witness"] = r["case"]
d["findings"].append(e)
json.dump(d, open(p, "w"), indent=1)
print("added", pid, status, sig)

#!/bin/bash
# tools/benignrate.sh <VERIF_SEED> [workers]   every behaviour-preserving change that still applies to /repo HEAD, on scratch
# worktrees (HIO_SRC): its check must stay quiet (rc=0).  Output: one line per change.
vs="${1:-1}"; nw="${2:-8}"
cd /verif
for k in $(seq 1 $nw); do
  [ -d /tmp/hio_b$k ] || git -C /repo worktree add -q --detach /tmp/hio_b$k HEAD
done
one() {
  n="$1"; vs="$2"; k="$3"; w=/tmp/hio_b$k; t=${n:0:3}
  git -C $w checkout -q -- .
  if ! git -C $w apply /verif/benign/$n/patch.diff 2>/dev/null; then
    if ! git -C $w apply --3way /verif/benign/$n/patch.diff >/dev/null 2>&1 || [ -n "$(git -C $w diff --name-only --diff-filter=U)" ]; then
      git -C $w reset -q --hard; echo "$n does-not-apply"; return; fi
    git -C $w reset -q
  fi
  out=$(cd /verif && HIO_SRC=$w/src VERIF_SEED=$vs ./check $t quick 2>&1); rc=$?
  sig=$(echo "$out" | grep -a -m1 "signature:" | sed 's/ *signature: //')
  echo "$n -> $t seed=$vs rc=$rc $sig"
  git -C $w checkout -q -- .
}
export -f one
ls benign | awk -v nw=$nw '{print $1, (NR-1)%nw+1}' > /tmp/.benignrate_jobs
for k in $(seq 1 $nw); do
  ( awk -v k=$k '$2==k{print $1}' /tmp/.benignrate_jobs | while read n; do one $n $vs $k; done ) &
done
wait
for k in $(seq 1 $nw); do git -C /repo worktree remove --force /tmp/hio_b$k; done; git -C /repo worktree prune

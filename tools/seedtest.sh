#!/bin/bash
# tools/seedtest.sh <seed-dir-name e.g. C03> "<tests>" <check ids...>
# 1. confirm in the scratch worktree: demo fails with patch / passes without; tests same both ways
# 2. apply to /repo, run the given checks (quick), undo
# 3. keep under /verif/seeded/<name>/
name="$1"; tests="$2"; shift 2
wt=/tmp/seed_$name; out=$wt/seed_out
[ -f $out/patch.diff ] || { echo "no patch"; exit 2; }
cd $wt && git checkout -q -- src && git apply --check $out/patch.diff || { echo "patch does not apply"; exit 2; }
export PYTHONDONTWRITEBYTECODE=1
run_tests(){ PYTHONPATH=$wt/src unshare -n sh -c 'ip link set lo up; exec "$@"' sh /venv/bin/python -m pytest -q -p no:cacheprovider -rA $tests 2>&1 | grep -E "^(PASSED|FAILED|ERROR)" | sort; }
base=$(run_tests)
PYTHONPATH=$wt/src /venv/bin/python -W ignore $out/demo.py >/dev/null 2>&1; d0=$?
git apply $out/patch.diff
PYTHONPATH=$wt/src /venv/bin/python -W ignore $out/demo.py >/dev/null 2>&1; d1=$?
pat=$(run_tests)
git checkout -q -- src
rm -rf /tmp/hio_*_test
same=no; [ "$base" == "$pat" ] && same=yes
echo "demo: without=$d0 with=$d1  tests-identical=$same ($(echo "$base" | grep -c PASSED) passed base)"
cd /repo && git apply $out/patch.diff || exit 2
res=""
for c in "$@"; do
  cd /verif && o=$(./check $c quick 2>&1); rc=$?
  sig=$(echo "$o" | grep -m1 "signature:" | sed 's/ *signature: //')
  echo "  check $c rc=$rc $sig"
  res="$res $c:rc=$rc:$sig;"
done
cd /repo && git checkout -q -- . && git status --short
mkdir -p /verif/seeded/$name && cp $out/patch.diff $out/demo.py /verif/seeded/$name/ 
/venv/bin/python - "$name" "$d0" "$d1" "$same" "$res" <<'PY'
import json,sys
name,d0,d1,same,res=sys.argv[1:6]
m=json.load(open('/tmp/seed_%s/seed_out/meta.json'%name))
m['verified']={'demo_exit_without_patch':int(d0),'demo_exit_with_patch':int(d1),'existing_tests_identical':same=='yes',
  'checks_run_on_/repo_with_patch_applied':res.strip()}
json.dump(m,open('/verif/seeded/%s/meta.json'%name,'w'),indent=1)
PY

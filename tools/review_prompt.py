#!/usr/bin/env python3
"""Prompt for an independent reviewer of the repair commits: tools/review_prompt.py <tag> "<files>" "<property ids>" "<tests>" """
import json, sys
tag, files, pids, tests = sys.argv[1:5]
props = [json.loads(l) for l in open("/verif/properties.jsonl")]
sel = [p for p in props if p["id"] in pids.split()]
d = "/tmp/review_%s" % tag
ptxt = "\n".join("  %s: %s\n    Statement: %s\n    Quantified over: %s" % (p["id"], p["title"], p["statement"], p["quantifier"]["text"]) for p in sel)
print(f"""You are working in a scratch git worktree of the Python library ioflo/hio at {d} (source under {d}/src/hio, tests under {d}/tests). Work ONLY inside {d}; do not read or touch /repo, /verif or other checkouts. Do not use `git stash`.

Environment: Python is /venv/bin/python (3.12); the `hio` in site-packages is an OLDER release, so always run with `PYTHONPATH={d}/src PYTHONDONTWRITEBYTECODE=1` and assert in scripts that `hio.__file__` starts with `{d}/src`. No network. Run tests that open sockets inside a private network namespace: `unshare -n sh -c 'ip link set lo up; exec "$@"' sh <command...>`. The test-suite leaves /tmp/hio_*_test directories; remove those you created. Relevant tests: {tests}

The last 43 commits of this repository (`git log --oneline 5109c34..HEAD`; each message starts with "fix:" and explains the defect it repairs) are recent repairs, each meant to be minimal and to correct behaviour without changing anything else. Your job is an ADVERSARIAL CODE REVIEW of the repairs that touch these files: {files}
(`git log -p 5109c34..HEAD -- {files}`).

For each such commit ask: does the repair do what its message says for ALL inputs, not only the one that motivated it? Does it introduce a regression - a new exception path, a changed behaviour for callers that were fine before, a resource leak, a state left inconsistent when an exception passes through, an interaction with another of the 43 repairs, a subclass or variant (TLS, asyncio, Bare/Ice/Tyme, udp/uxd) that overrides or bypasses the repaired method and still has the defect, a performance trap (quadratic work per cycle)? Try your suspicions for real with small scripts; report only what you actually observed.

These user-facing properties must hold on the repaired tree and are the yardstick for "regression" (a repair that breaks one of them, or leaves its own defect reachable by another route, is what you are looking for):
{ptxt}

Deliverables in {d}/seed_out/ : demo.py (reproduces each problem found on the current HEAD, prints input / observed / expected, exits 1 if any reproduces, else 0), meta.json ({{"found": bool, "problems": [{{"commit": "...", "what": "...", "input": "...", "observed": "...", "expected": "...", "why_it_matters": "which property/clause or which previously-working caller", "suggested_fix": "..."}}], "reviewed": ["commit: verdict in one line"]}}), optional fix.diff (minimal). Be strict and honest: "no problem found" with the list of what you checked is a useful result. Restore the source to HEAD when done. Reply with a short summary.""")

#!/bin/bash
# tools/seedrate.sh <VERIF_SEED> [workers]   detection of every seeded change at another VERIF_SEED, in parallel on scratch
# worktrees of /repo (HIO_SRC), so /repo itself is not touched.  Output: one line per seeded change.
vs="${1:-2}"; nw="${2:-8}"
cd /verif
for k in $(seq 1 $nw); do
  [ -d /tmp/hio_w$k ] || git -C /repo worktree add -q --detach /tmp/hio_w$k HEAD
done
one() {
  n="$1"; vs="$2"; k="$3"
  w=/tmp/hio_w$k
  t=${n:0:3}; [ "$n" = "C05b" ] && t=C30
  git -C $w checkout -q -- . 
  if ! git -C $w apply /verif/seeded/$n/patch.diff 2>/dev/null; then echo "$n patch-does-not-apply"; return; fi
  out=$(cd /verif && HIO_SRC=$w/src VERIF_SEED=$vs ./check $t quick 2>&1); rc=$?
  sig=$(echo "$out" | grep -a -m1 "signature:" | sed 's/ *signature: //')
  echo "$n -> $t seed=$vs rc=$rc $sig"
  git -C $w checkout -q -- .
}
export -f one
ls seeded | awk -v nw=$nw '{print $1, (NR-1)%nw+1}' > /tmp/.seedrate_jobs
for k in $(seq 1 $nw); do
  ( awk -v k=$k '$2==k{print $1}' /tmp/.seedrate_jobs | while read n; do one $n $vs $k; done ) &
done
wait

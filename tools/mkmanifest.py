#!/usr/bin/env python3
"""Regenerate /verif/MANIFEST.json from the table below (run from /verif)."""
import json, os, sys
here = os.path.dirname(os.path.dirname(os.path.abspath(__file__)))
props = [json.loads(l) for l in open(os.path.join(here, "properties.jsonl"))]
ids = [p["id"] for p in props]

# id -> (category, technique, level text, level note, design_ref)
CLAIMED = {}
def claim(pid, technique, text, note, category="exploration"):
    CLAIMED[pid] = (category, technique, text, note)

sys.path.insert(0, os.path.join(here, "tools"))
from claims import register   # noqa
register(claim)


# additions made after the independent bug hunts (DESIGN.md 7.5c): appended to the level text of the extended checks
ADDENDA = {
 "C01": "Extended (7.5c): structural calls (extend/remove) are also made from a doer's enter context (search 'enter-context-calls').",
 "C02": "Extended (7.5c): doers that removed themselves and are still alive at the stop ARE ordered by when they were entered (the earlier relaxation was withdrawn); enter-context calls generated.",
 "C06": "Extended (7.5c): enter-context calls; membership vs running lifecycles (entered twice / never entered); model-independent clause that within a cycle the doers of one host recur in the order they were entered, also after runtime extends.",
 "C07": "Extended (7.5c): a float-clock class with an exact Fraction clock, non-dyadic tocks, epoch-sized clock bases and up to 64 (thorough 200) cycles; tolerance fixed at 4 ulp of the largest clock reading (+2 ulp per backward step), independent of the cycle number.",
 "C10": "Extended (7.5c): 69 further enumerated set-up fault cells (connection dies after k address queries or at the TLS wrap step, with and without queued bytes; every property errno at the wrap probe) on Server, ServerTls, Client, ClientTls, plus late-dying connections in the schedules and a client dial search on the real accept/connect/wrap/handshake code.",
 "C11": "Extended (7.5c): case field hold (the harness keeps the Remoters it saw in .ixes / .cxes, as an application does), replacement of established TLS connections, sockets queued by serviceAccepts() only, and a focused 'server-replacements' search.",
 "C12": "Extended (7.5c): an https dimension (http.Server and BareServer on the fake TLS servant) with per-connection handshake delay incl. never completing; pending handshakes are judged by the same deadline rule.",
 "C13": "Extended (7.5c): start lines, header lines, chunk-size lines and trailer lines of exactly the maximum size and +-1, with cuts at every offset around their terminator.",
 "C14": "Extended (7.5c): repeated header names (parser getall() in order, environ comma-joined) and an explicit Content-Length on every method incl. GET.",
 "C15": "Extended (7.5c): reference re-derived from the SSE dispatch rules (an empty data line dispatches an event with empty data); event streams delimited by Content-Length; streams resumed through a real reconnecting Client on the in-memory connector.",
 "C16": "Extended (7.5c): second enumeration group (1984 cells) and mutations for percent-encoded targets, deep JSON, hostile event streams (invalid UTF-8, non-latin-1 ids, huge retry), hostile Location values, reconnectable / dictable clients, and https targets (wsgi-tls, bare-tls, client-tls) on the fake TLS layer.",
 "C17": "Extended (7.5c): through Client.responses each delivered body is read again after the following response was decoded.",
 "C18": "Extended (7.5c): segmented delivery with service cycles between a request's head and body, chunked request bodies, HEAD and 204/304, pieces handed to the write() callable incl. empty ones, start_response replaced with exc_info.",
 "C19": "Extended (7.5c): HEAD/DELETE/PATCH/OPTIONS, caller data on requests, 3xx without Location, refused downgrade followed by a 2xx with a Location header, answers cut by the server at any byte, close-delimited answers.",
 "C23": "Extended (7.5c): values that are equal in Python but serialise differently (1 / 1.0 / True twins) and one-shot iterator arguments.",
 "C24": "Extended (7.5c): non-default ionsep separators ('-', '|', '_', ':') for IoSuber / IoSetSuber with keys containing the separator, and a statement-only read-back (get + cnt).",
 "C28": "Extended (7.5c): classes declared under from __future__ import annotations, Optional / list / dict hints, Any fields holding data objects (Bag, IceBag, Can), field(init=False), nested _dictify/_datify hook pairs; five shapes are open known findings recognised only when the result is exactly the sent object with the nested objects of that shape replaced by their plain dicts.",
 "C29": "Extended (7.5c): up to three reopens and 288 enumerated reopen histories of temp resources before the clearing close.",
}
for _pid, _txt in ADDENDA.items():
    _c = CLAIMED[_pid]
    CLAIMED[_pid] = (_c[0], _c[1], _c[2] + " " + _txt, _c[3])

NOT_YET = "check not built yet (work in progress); will be claimed once its check is registered"
man = {
 "version": 1,
 "setup_cmd": "./setup.sh",
 "hooks": {
  "guard": "HIO_VERIF",
  "enable": "no source hooks are needed: every check runs /venv/bin/python with PYTHONPATH=/repo/src so the working tree is imported afresh on each invocation; clock, sockets and connectors are substituted from the harness side",
  "baseline_off_cmd": "cd /repo && /venv/bin/python -m pytest -ra -q -p no:cacheprovider --timeout=900 --continue-on-collection-errors",
  "source_commits": [],
  "add_only": True,
 },
 "engines": [
  {"name": "hypothesis-runner", "path": "vlib/runner.py", "serves_properties": sorted(CLAIMED),
   "kind_free_text": "Hypothesis 6.168 generated-input search (plus complete enumeration of small finite sub-domains) against explicit oracles, collect-classify-shrink with known-findings file; ./check <id> quick|thorough"},
 ],
 "checks": [],
 "notes": "All checks: exit 0 held / exit 1 + VIOLATION line / exit 2 harness error. VERIF_SEED seeds every generator. known_findings.json lists open and fixed genuine defects with witnesses; seeded/ holds 179 independently written breaking changes (re-based onto the repaired tree; those neutralised by a later repair of the defect they relied on carry a note_after_later_fix), benign/ holds 90 independently written behaviour-preserving rewrites, legitimate behaviour changes and differently-made free choices on which every check stayed quiet after the five oracle over-reaches they exposed were corrected, hunts/ holds 30 independent bug-hunting reports on the unchanged tree whose in-domain findings the checks were extended to find by themselves (43 further repairs plus 6 from an adversarial review of those repairs, 5 open findings) (see DESIGN.md 7.5, 7.5b, 7.5c, 7.5d).",
 "not_applicable": [],
}
for pid in ids:
    if pid in CLAIMED:
        cat, tech, text, note = CLAIMED[pid]
        man["checks"].append({
            "property_id": pid,
            "quick_cmd": "./check %s quick" % pid,
            "thorough_cmd": "./check %s thorough" % pid,
            "evidence_file": "/verif/evidence/%s.json" % pid,
            "replay_cmd_template": "./check %s --replay {path}" % pid,
            "engine": "hypothesis-runner",
            "level_claimed": {"category": cat, "text": text, "design_ref": "DESIGN.md §3 %s" % pid},
            "level_note": note,
            "technique": tech,
        })
    else:
        man["not_applicable"].append({"property_id": pid, "reason": NOT_YET})
json.dump(man, open(os.path.join(here, "MANIFEST.json"), "w"), indent=1)
print("claimed", len(CLAIMED), "not yet", len(man["not_applicable"]))

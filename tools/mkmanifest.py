#!/usr/bin/env python3
"""Regenerate /verif/MANIFEST.json from the table below (run from /verif)."""
import json, os, sys
here = os.path.dirname(os.path.dirname(os.path.abspath(__file__)))
props = [json.loads(l) for l in open(os.path.join(here, "properties.jsonl"))]
ids = [p["id"] for p in props]

# id -> (category, technique, level text, level note, design_ref)
CLAIMED = {}
def claim(pid, technique, text, note, category="exploration"):
    CLAIMED[pid] = (category, technique, text, note)

sys.path.insert(0, os.path.join(here, "tools"))
from claims import register   # noqa
register(claim)

NOT_YET = "check not built yet (work in progress); will be claimed once its check is registered"
man = {
 "version": 1,
 "setup_cmd": "./setup.sh",
 "hooks": {
  "guard": "HIO_VERIF",
  "enable": "no source hooks are needed: every check runs /venv/bin/python with PYTHONPATH=/repo/src so the working tree is imported afresh on each invocation; clock, sockets and connectors are substituted from the harness side",
  "baseline_off_cmd": "cd /repo && /venv/bin/python -m pytest -ra -q -p no:cacheprovider --timeout=900 --continue-on-collection-errors",
  "source_commits": [],
  "add_only": True,
 },
 "engines": [
  {"name": "hypothesis-runner", "path": "vlib/runner.py", "serves_properties": sorted(CLAIMED),
   "kind_free_text": "Hypothesis 6.168 generated-input search (plus complete enumeration of small finite sub-domains) against explicit oracles, collect-classify-shrink with known-findings file; ./check <id> quick|thorough"},
 ],
 "checks": [],
 "notes": "All checks: exit 0 held / exit 1 + VIOLATION line / exit 2 harness error. VERIF_SEED seeds every generator. known_findings.json lists open and fixed genuine defects with witnesses; seeded/ holds 179 independently written breaking changes (175 reported by their check, four neutralised by later repairs of the defect they relied on), benign/ holds 90 independently written behaviour-preserving rewrites, legitimate behaviour changes and differently-made free choices on which every check stays quiet after the five oracle over-reaches they exposed were corrected (see DESIGN.md 7.5, 7.5b).",
 "not_applicable": [],
}
for pid in ids:
    if pid in CLAIMED:
        cat, tech, text, note = CLAIMED[pid]
        man["checks"].append({
            "property_id": pid,
            "quick_cmd": "./check %s quick" % pid,
            "thorough_cmd": "./check %s thorough" % pid,
            "evidence_file": "/verif/evidence/%s.json" % pid,
            "replay_cmd_template": "./check %s --replay {path}" % pid,
            "engine": "hypothesis-runner",
            "level_claimed": {"category": cat, "text": text, "design_ref": "DESIGN.md §3 %s" % pid},
            "level_note": note,
            "technique": tech,
        })
    else:
        man["not_applicable"].append({"property_id": pid, "reason": NOT_YET})
json.dump(man, open(os.path.join(here, "MANIFEST.json"), "w"), indent=1)
print("claimed", len(CLAIMED), "not yet", len(man["not_applicable"]))

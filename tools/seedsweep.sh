#!/bin/bash
# tools/seedsweep.sh   apply every seeded change to /repo in turn, run its target check (quick), undo; expect rc=1
# (never run while anything else uses /repo)
cd /verif
declare -A TARGET=( [C05b]=C30 )
for d in seeded/*/; do
  n=$(basename $d); t=${TARGET[$n]:-${n:0:3}}
  cd /repo && git checkout -q -- . && if ! git apply $OLDPWD/$d/patch.diff 2>/dev/null; then echo "$n patch-does-not-apply"; cd /verif; continue; fi
  cd /verif; out=$(./check $t quick 2>&1); rc=$?
  sig=$(echo "$out" | grep -a -m1 "signature:" | sed 's/ *signature: //')
  echo "$n -> $t rc=$rc $sig"
  cd /repo && git checkout -q -- .; cd /verif
done
cd /repo && git status --short | head -3

#!/bin/bash
# tools/benigntest.sh <C..> "<tests>"   validate a behaviour-preserving change from /tmp/seed_<id>ok/seed_out:
# demo passes with and without, tree tests identical, then the property's check must stay quiet with the patch on /repo
id="$1"; tests="$2"; sfx="${3:-ok}"; dst="$id"; [ "$sfx" = "ok2" ] && dst="${id}b"; [ "$sfx" = "ok3" ] && dst="${id}c"
wt=/tmp/seed_${id}${sfx}; out=$wt/seed_out
[ -f $out/patch.diff ] || { echo "no patch"; exit 2; }
cd $wt && git checkout -q -- src && git apply --check $out/patch.diff || { echo "patch does not apply"; exit 2; }
export PYTHONDONTWRITEBYTECODE=1
run_tests(){ PYTHONPATH=$wt/src unshare -n sh -c 'ip link set lo up; exec "$@"' sh /venv/bin/python -m pytest -q -p no:cacheprovider -rA $tests 2>&1 | grep -E "^(PASSED|FAILED|ERROR)" | sort; }
base=$(run_tests)
PYTHONPATH=$wt/src /venv/bin/python -W ignore $out/demo.py >/dev/null 2>&1; d0=$?
git apply $out/patch.diff
PYTHONPATH=$wt/src /venv/bin/python -W ignore $out/demo.py >/dev/null 2>&1; d1=$?
pat=$(run_tests)
git checkout -q -- src
rm -rf /tmp/hio_*_test
same=no; [ "$base" == "$pat" ] && same=yes
lines=$(grep -c '^[+-][^+-]' $out/patch.diff)
echo "demo: without=$d0 with=$d1  tests-identical=$same  changed-lines=$lines"
cd /repo && git apply $out/patch.diff || exit 2
res=""
for sd in 1 2; do
  cd /verif && o=$(VERIF_SEED=$sd ./check $id quick 2>&1); rc=$?
  sig=$(echo "$o" | grep -a -m1 "signature:" | sed 's/ *signature: //')
  echo "  check $id seed=$sd rc=$rc $sig"
  res="$res seed$sd:rc=$rc:$sig;"
done
cd /repo && git checkout -q -- . && git status --short
mkdir -p /verif/benign/$dst && cp $out/patch.diff $out/demo.py /verif/benign/$dst/
/venv/bin/python - "$id" "$d0" "$d1" "$same" "$res" "$sfx" "$dst" <<'PY'
import json,sys
id_,d0,d1,same,res,sfx,dst=sys.argv[1:8]
m=json.load(open('/tmp/seed_%s%s/seed_out/meta.json'%(id_,sfx)))
m['verified']={'demo_exit_without_patch':int(d0),'demo_exit_with_patch':int(d1),'existing_tests_identical':same=='yes',
  'check_on_/repo_with_patch_applied':res.strip()}
json.dump(m,open('/verif/benign/%s/meta.json'%dst,'w'),indent=1)
PY

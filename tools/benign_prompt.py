#!/usr/bin/env python3
"""Prompt for an independent sub-agent that writes a BEHAVIOUR-PRESERVING change: the property must still hold.
Used to probe the checks for over-reach (alarms on code where the property holds)."""
import json, sys
pid = sys.argv[1]
tests = sys.argv[2] if len(sys.argv) > 2 else "tests/"
suffix = sys.argv[3] if len(sys.argv) > 3 else "ok"
p = next(json.loads(l) for l in open("/verif/properties.jsonl") if json.loads(l)["id"] == pid)
d = "/tmp/seed_%s%s" % (pid, suffix)
push = (" This time a pure refactor is NOT enough: change OBSERVABLE behaviour in as many ways as the statement permits while it still "
        "holds - timing or ordering of things the statement does not order, what happens on inputs or situations outside the "
        "quantified domain, values and state the statement does not mention, how often and when internal operations (sends, reads, "
        "parser resumptions, clock readings, database transactions) happen, which of several allowed outcomes is chosen. Think of a "
        "maintainer who legitimately decides to do it differently. State precisely in meta.json why each difference is permitted by the "
        "statement.") if suffix.endswith("2") else ""
if suffix.endswith("3"):
    push = (" This time a pure refactor is NOT enough, and the obvious freedoms (log text, error messages, helper names) are not "
            "enough either. Look for the places where the present implementation makes a CHOICE the statement does not force, and "
            "choose differently: what public methods RETURN where the statement is silent (None vs bool vs the object vs a count); "
            "whether a non-effect is signalled by False, None, or an exception (where the statement allows either); the TYPE of "
            "containers and items exposed as attributes (list vs tuple vs deque, bytes vs bytearray vs memoryview, dict vs ordered "
            "mapping); the internal REPRESENTATION of pending work (buffers, queues, markers, flags) including renaming or "
            "restructuring attributes the statement never names; the ORDER among independent items (headers, keys, siblings that "
            "the statement does not order); WHEN intermediate state becomes visible (before or after a callback, at the line or at "
            "the end of a block); eager versus lazy work; one call doing more or less per invocation. Keep everything the "
            "statement does say exactly true. State precisely in meta.json why each difference is permitted.")
print(f"""You are working in a scratch git worktree of the Python library ioflo/hio at {d} (library source under {d}/src/hio, its tests under {d}/tests). Work ONLY inside {d}. Do not read, touch or depend on /repo, /verif or any other checkout.

Environment facts:
- Python is /venv/bin/python (3.12). The `hio` installed in site-packages is an OLDER release, so you must always run with `PYTHONPATH={d}/src PYTHONDONTWRITEBYTECODE=1` and, in any script, assert that `hio.__file__` starts with `{d}/src` so that the worktree code is what runs.
- No network. pytest is available: `cd {d} && PYTHONPATH={d}/src PYTHONDONTWRITEBYTECODE=1 /venv/bin/python -m pytest -q -p no:cacheprovider {tests}`. A few tests already fail on the unchanged tree (Python-version differences); what matters is that the set of passing/failing tests is the same before and after your change. Other jobs on this machine may hold fixed test ports; run network tests inside a private network namespace: `unshare -n sh -c 'ip link set lo up; exec "$@"' sh <command...>`. The hio test-suite leaves directories named /tmp/hio_*_test behind; remove those you created when done.

A property of hio that users rely on:

  {p['id']}: {p['title']}
  Statement: {p['statement']}
  Quantified over: {p['quantifier']['text']}
  Anchored in: {', '.join(p['anchors']['files'])}

Your task is the opposite of bug seeding: make ONE realistic maintenance change to the code this property is anchored in such that the property STILL HOLDS exactly as stated, the package still imports, and the existing tests listed above give exactly the same pass/fail results - but the implementation differs as much as a real refactor or legitimate behaviour change would. Good candidates: restructure the relevant function(s) (different control flow, different internal data structure, hoisted or inlined helpers, early returns), change something the statement leaves open (the type or message of an exception raised for rejected input, a return value the statement does not mention, log output, the order of operations the statement does not order, internal attribute names or extra bookkeeping attributes, when exactly an internal buffer is trimmed, tie-breaking where the statement allows several outcomes), or a performance rewrite. The change should be substantial enough (typically 10-60 changed lines) that a test which is over-fitted to the current implementation would notice, while a test of the property as stated must not. Do NOT change anything the statement does constrain, and do not edit tests.{push}

Deliverables, all inside {d}/seed_out/ :
  1. patch.diff  - `git diff` of your source change only (it must apply with `git apply` to a clean checkout of this worktree's HEAD).
  2. demo.py     - a standalone script that checks the property on a few scenarios of your choosing and exits 0 when it holds, 1 when violated. It must PASS (exit 0) both with and without your change.
  3. meta.json   - {{"property": "{p['id']}", "summary": "...what was changed...", "freedom_used": "...which aspect the statement leaves open that your change uses, or 'pure refactor'...", "files": [...], "ran": ["commands you ran and their outcomes"]}}

Before you finish: verify yourself that (a) demo.py exits 0 with the patch and 0 without it (switch with `git apply seed_out/patch.diff` and `git checkout -- src`; do NOT use `git stash`), (b) the existing tests named above have the same results with and without the patch, then leave the worktree with the source restored to HEAD (clean `git status` apart from seed_out/ and TASK.md). Reply with a short summary of the change and which freedom of the statement it uses.""")
